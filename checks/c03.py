"""C03 -- finite-volume operators obey the discrete calculus identities.

Each builder of tdgl/finite_volume/operators.py gets a stencil postcondition (written from the docs) proved block-wise
on the matrix the REAL code assembles for a mesh with symbolic numbers of sites and edges; the identities are lemmas over
those stencils at the generic edge (plus trusted finite-sum meta-lemmas, see /verif/lemmas/finite_sums.md)."""
import z3

from pyvc import sym
from pyvc.arr import check_same
from pyvc.harness import Unit
from pyvc import harness as _h
from pyvc.meshmodel import compare_blocks
from pyvc.sym import SB, SC, SI, SR, check, explore, assume
from checks import ops_common as oc

PROPERTY = "C03"
LEVEL = "proof"
TRUSTED = ["numpy model (arange, ones, concatenate, einsum, exp, isin, fancy indexing) and scipy.sparse constructor model (COO blocks)",
           "finite-sum meta-lemmas (lemmas/finite_sums.md): a matrix identity that holds block-wise for the generic index holds for the sum; "
           "sum over edges of W_e (g_i-g_j)^2 with W_e>0 on a connected graph vanishes iff g is constant"]
ASSUMPTIONS = ["valid_mesh: 0<=i_e<j_e<N, distinct edges have distinct site pairs, areas>0, edge lengths>0, dual edge lengths>=0 "
               "(geometric facts the operator code cannot establish are hypotheses)",
               "block-wise matrix comparison is sufficient, not necessary: a block structure the matcher cannot align is undecided, not a violation"]
EXPLANATION = "stencil postconditions on the real builders for symbolic N, E + per-edge identities; holds for every triangulation"
F = "tdgl.finite_volume.operators:"


def _run(body, mutate, L=None):
    L = L or oc.load_ops(mutate)
    from pyvc import instrument as _ins

    def framed():
        # frame condition of every builder: the result is a function of the arguments - no module-level state is written (an operator remembered across
        # calls would be keyed by something that does not determine the geometry of a mesh).  A candidate: it counts only with a replayed failing input.
        st0 = _ins.module_state(L)
        body(L)
        st1 = _ins.module_state(L)
        # containers only (memo tables, registries): names the harness itself rebinds (model modules) are not state of the code under test
        ch = [k for k in _ins.module_state_changes(st0, st1) if len(st0.get(k, ())) > 1 or len(st1.get(k, ())) > 1]
        check("C03.builders.result_is_a_function_of_the_arguments.no_module_state_written", z3.BoolVal(not ch), note=f"module-level state changed: {ch}", weak=True)
    obls, n = explore(framed)
    return dict(obls=obls, paths=n, sources=[L.info()], consistent=sym.consistent())


def run_divergence(mutate=None):
    def body(L):
        M = oc.setup_mesh()
        D = L["build_divergence"](M.mesh)
        check("C03.divergence.shape", z3.And(sym.eq(D.shape[0], M.N), sym.eq(D.shape[1], M.E)))
        compare_blocks("C03.build_divergence.stencil", D.blocks, oc.divergence_spec(M), [], oc.edge_ax(M))
    return _run(body, mutate)


def run_gradient(mutate=None):
    def body(L):
        M = oc.setup_mesh()
        A = M.A_field("A")
        for tag, kw, spec in (("scalar", dict(), oc.gradient_spec(M)),
                              ("scalar_weights", dict(weights=1 / M.edge_mesh.edge_lengths), oc.gradient_spec(M)),
                              ("covariant", dict(link_exponents=A, weights=1 / M.edge_mesh.edge_lengths), oc.gradient_spec(M, A))):
            G = L["build_gradient"](M.mesh, **kw)
            check(f"C03.gradient[{tag}].shape", z3.And(sym.eq(G.shape[0], M.E), sym.eq(G.shape[1], M.N)))
            compare_blocks(f"C03.build_gradient.stencil[{tag}]", G.blocks, spec, [], oc.edge_ax(M))
    return _run(body, mutate)


def run_laplacian(mutate=None):
    def body(L):
        M = oc.setup_mesh()
        A = M.A_field("A")
        W = M.edge_mesh.dual_edge_lengths / M.edge_mesh.edge_lengths
        cases = (("scalar", dict(weights=W), oc.laplacian_spec(M)),
                 ("scalar_default_weights", dict(), oc.laplacian_spec(M)),
                 ("covariant_free", dict(link_exponents=A, weights=W), oc.laplacian_spec(M, A)),
                 ("covariant_pinned", dict(link_exponents=A, fixed_sites=M.fixed_sites, weights=W), oc.laplacian_spec(M, A, pinned=True)))
        for tag, kw, spec in cases:
            Lp, free_rows = L["build_laplacian"](M.mesh, **kw)
            check(f"C03.laplacian[{tag}].shape", z3.And(sym.eq(Lp.shape[0], M.N), sym.eq(Lp.shape[1], M.N)))
            compare_blocks(f"C03.build_laplacian.stencil[{tag}]", Lp.blocks, spec, [], oc.edge_ax(M))
    return _run(body, mutate)


def run_neumann(mutate=None):
    def body(L):
        M = oc.setup_mesh()
        Bm = L["build_neumann_boundary_laplacian"](M.mesh)
        check("C03.neumann.shape", z3.And(sym.eq(Bm.shape[0], M.N), sym.eq(Bm.shape[1], M.Bn)))
        compare_blocks("C03.build_neumann_boundary_laplacian.stencil", Bm.blocks, oc.neumann_spec(M), [], oc.edge_ax(M))
    return _run(body, mutate)


def run_build_operators(mutate=None):
    """the operators object the solver actually uses: after the REAL MeshOperators.build_operators, for every CPU sparse solver, the four
    scalar operators are the matrices of the stencil contracts (storage conversions must not change the matrix) and the factorisation
    handed to the Poisson solve is the factorisation of that Laplacian"""
    from pyvc.models.spmodel import SP, _LinalgModel

    class Factor:
        def __init__(self, m):
            self.matrix = m

    class Linalg(_LinalgModel):
        @staticmethod
        def factorized(m):
            return Factor(m)

    class SPF(SP):
        linalg = Linalg

    def body(L):
        L.ns["sp"] = SPF
        M = oc.setup_mesh()
        for name in ("SUPERLU", "UMFPACK", "PARDISO", "SUPERLU; device with terminals"):
            # with terminals the order parameter is pinned on fixed_sites - the scalar potential never is (pure Neumann problem)
            pinned = "terminals" in name
            ops = L["MeshOperators"](M.mesh, getattr(L["SparseSolver"], name.split(";")[0]), use_cupy=False, fixed_sites=(M.fixed_sites if pinned else None), fix_psi=pinned)
            ops.build_operators()
            ax = oc.edge_ax(M)
            check(f"C03.operators_object.shapes[{name}]", z3.And(sym.eq(ops.mu_laplacian.shape[0], M.N), sym.eq(ops.mu_laplacian.shape[1], M.N),
                                                                   sym.eq(ops.divergence.shape[0], M.N), sym.eq(ops.mu_gradient.shape[0], M.E)))
            compare_blocks(f"C03.operators_object.mu_laplacian_is_the_scalar_laplacian[{name}]", ops.mu_laplacian.blocks, oc.laplacian_spec(M), [], ax)
            compare_blocks(f"C03.operators_object.mu_gradient_is_the_gradient[{name}]", ops.mu_gradient.blocks, oc.gradient_spec(M), [], ax)
            compare_blocks(f"C03.operators_object.divergence_is_the_divergence[{name}]", ops.divergence.blocks, oc.divergence_spec(M), [], ax)
            compare_blocks(f"C03.operators_object.boundary_laplacian_is_the_neumann_matrix[{name}]", ops.mu_boundary_laplacian.blocks, oc.neumann_spec(M), [], ax)
            lu = ops.mu_laplacian_lu
            if name.startswith("PARDISO"):
                check(f"C03.operators_object.no_stale_factorisation[{name}]", z3.BoolVal(lu is None))
            else:
                check_same(f"C03.operators_object.factorisation_is_of_the_scalar_laplacian[{name}]", [(lu.matrix, ops.mu_laplacian)] if isinstance(lu, Factor) else [], also=isinstance(lu, Factor))
    return _run(body, mutate)


def run_identities(mutate=None):
    """lemmas over the stencil specs at the generic edge e=(i,j) / boundary edge b"""
    def body(_L):
        M = oc.setup_mesh()
        k = SI(sym.FreshInt("e"))
        assume(k >= 0, k < M.E)
        sym.ctx().pc += M.edge_axioms([k])
        A = M.A_field("A")
        D = [oc_eval(b, k) for b in oc.divergence_spec(M)]
        G = [oc_eval(b, k) for b in oc.gradient_spec(M)]
        Lm = [oc_eval(b, k) for b in oc.laplacian_spec(M)]
        LA = [oc_eval(b, k) for b in oc.laplacian_spec(M, A)]
        ai, aj = M.a(M.i(k.e)), M.a(M.j(k.e))
        # L = D o G: D's column e has entries at rows i,j; G's row e has entries at cols j,i.  Products of edge e:
        # (row_D(a), col_G(b)) -> val_D(a)*val_G(b), to be matched with the four Laplacian entries of edge e.
        check("C03.lap_is_div_grad.D_cols_and_G_rows_are_the_edge", z3.And(D[0][3].e == k.e, D[1][3].e == k.e, G[0][2].e == k.e, G[1][2].e == k.e))
        prod = {}
        for a in range(2):
            for b in range(2):
                prod[(a, b)] = (D[a][2], G[b][3], D[a][4] * G[b][4])
        # D0=(i), D1=(j); G0=col j, G1=col i.  Laplacian blocks: 0:(i,j) 1:(j,i) 2:(i,i) 3:(j,j)
        want = {(0, 0): 0, (1, 1): 1, (0, 1): 2, (1, 0): 3}
        for (a, b), li in want.items():
            r, c, v = prod[(a, b)]
            check(f"C03.lap_is_div_grad.entry{li}", z3.And(r.e == Lm[li][2].e, c.e == Lm[li][3].e, sym.eq(v, Lm[li][4])))
        # sum_i a_i (D f)_i = 0: column e of diag(a) D sums to zero
        check("C03.div_sums_to_zero", (ai * D[0][4] + aj * D[1][4]).e == 0)
        # area-weighted scalar Laplacian symmetric: a_i L_ij == a_j L_ji
        check("C03.symmetric", (ai * Lm[0][4]).e == (aj * Lm[1][4]).e)
        # <g, diag(a) L g> restricted to edge e equals -W (g_i - g_j)^2  (negative semi-definite for W >= 0)
        gi, gj = SR(z3.Real("g_i")), SR(z3.Real("g_j"))
        W = M.s(k) / M.l(k)
        quad = ai * gi * (Lm[0][4] * gj + Lm[2][4] * gi) + aj * gj * (Lm[1][4] * gi + Lm[3][4] * gj)
        check("C03.nsd_edge_form", quad.e == (-(W * (gi - gj) * (gi - gj))).e)
        check("C03.nsd_weight_nonneg", W.e >= 0)
        # constants are annihilated: the contributions of edge e to rows i and j vanish on g = const
        check("C03.kernel_contains_constants", z3.And((Lm[0][4] + Lm[2][4]).e == 0, (Lm[1][4] + Lm[3][4]).e == 0))
        # only constants (given dual edge lengths > 0): edge term zero => g_i == g_j  (connectedness: trusted meta-lemma)
        check("C03.kernel_only_constants_edge_step", z3.Implies(z3.And(M.dual(k.e) > 0, (W * (gi - gj) * (gi - gj)).e == 0), gi.e == gj.e))
        # covariant Laplacian Hermitian in the area-weighted inner product: a_i L_ij == conj(a_j L_ji), diagonals real
        check("C03.hermitian", z3.And(sym.eq(ai * LA[0][4], (aj * LA[1][4]).conjugate()),
                                      SC.lift(LA[2][4]).im.e == 0, SC.lift(LA[3][4]).im.e == 0))
        # gradient exact on linear functions g = alpha + beta . r  (using the edge geometry postcondition of EdgeMesh.from_mesh)
        al, bx, by = SR(z3.Real("alpha")), SR(z3.Real("beta_x")), SR(z3.Real("beta_y"))
        geo = M.geometry_axioms([k])
        gval = lambda s: al + bx * SR(M.site(s, 0)) + by * SR(M.site(s, 1))
        gradval = G[0][4] * gval(M.j(k.e)) + G[1][4] * gval(M.i(k.e))
        ehat_x = SR(M.dir(k.e, 0)) / M.l(k)
        ehat_y = SR(M.dir(k.e, 1)) / M.l(k)
        check("C03.grad_exact_on_linear", gradval.e == (bx * ehat_x + by * ehat_y).e, extra=geo)
        # boundary-flux operator integrates to sum_b e_b m_b: column b of diag(a) B sums to e_b
        b = SI(sym.FreshInt("b"))
        assume(b >= 0, b < M.Bn)
        sym.ctx().pc += oc.edge_ax(M)([b])
        Bn = [oc_eval(x, b) for x in oc.neumann_spec(M)]
        check("C03.flux_integrates", (M.a(Bn[0][2]) * Bn[0][4] + M.a(Bn[1][2]) * Bn[1][4]).e == M.elen(M.bidx(b.e)))
    obls, n = explore(lambda: body(None))
    return dict(obls=obls, paths=n, sources=[], consistent=sym.consistent())


def oc_eval(block, k):
    n, g, r, c, v = block
    return (n, (g(k) if g else z3.BoolVal(True)), r(k), c(k), v(k))



def _bounded_quick():
    from checks import ops_native
    return ops_native.search(0, 4)


def units():
    return [
        Unit("build_divergence", F + "build_divergence", run_divergence, props=["C03"], timeout=300),
        Unit("build_gradient", F + "build_gradient", run_gradient, props=["C03"], timeout=300),
        Unit("build_laplacian", F + "build_laplacian", run_laplacian, props=["C03"], timeout=600),
        Unit("build_neumann_boundary_laplacian", F + "build_neumann_boundary_laplacian", run_neumann, props=["C03"], timeout=300),
        Unit("identities", "lemmas over the stencil contracts (generic edge)", run_identities, props=["C03"], timeout=300),
        Unit("MeshOperators.build_operators", F + "MeshOperators.build_operators", run_build_operators, props=["C03"], timeout=600),
            _h.bounded_unit("operator identities on generated meshes [bounded]", "tdgl.finite_volume.operators (real builders, real meshes)", "C03", _bounded_quick, "real_operators_match_the_dense_reference_and_smoothing_leaves_meshes_intact[4 meshes]", timeout=900)]


M_ = "tdgl.finite_volume.operators"
MUTANTS = [
    dict(name="conjugate dropped in build_laplacian", edits=[(M_, "weights * link_variable_weights.conjugate() / areas1,", "weights * link_variable_weights / areas1,")]),
    dict(name="areas1 for areas0", edits=[(M_, "weights * link_variable_weights / areas0,", "weights * link_variable_weights / areas1,")]),
    dict(name="laplacian weights 1/edge_lengths -> edge_lengths", edits=[(M_, "weights = edge_mesh.dual_edge_lengths / edge_mesh.edge_lengths\n    if link_exponents is None:\n        link_variable_weights = np.ones(len(weights))\n    else:\n        link_variable_weights = np.exp(\n            -1j * np.einsum(\"ij, ij -> i\", link_exponents, edge_mesh.directions)\n        )\n    edges0", "weights = edge_mesh.dual_edge_lengths * edge_mesh.edge_lengths\n    if link_exponents is None:\n        link_variable_weights = np.ones(len(weights))\n    else:\n        link_variable_weights = np.exp(\n            -1j * np.einsum(\"ij, ij -> i\", link_exponents, edge_mesh.directions)\n        )\n    edges0")]),
    dict(name="missing 2* in Neumann matrix", edits=[(M_, "boundary_edges_length / (2 * mesh.areas[boundary_edges[:, 0]]),", "boundary_edges_length / (mesh.areas[boundary_edges[:, 0]]),")]),
    dict(name="divergence edges1 for edges0 in one block", edits=[(M_, "rows = np.concatenate([edges0, edges1])\n    cols = np.concatenate([edge_indices, edge_indices])", "rows = np.concatenate([edges1, edges1])\n    cols = np.concatenate([edge_indices, edge_indices])")]),
    dict(name="divergence sign", edits=[(M_, "[weights / mesh.areas[edges0], -weights / mesh.areas[edges1]]", "[weights / mesh.areas[edges0], weights / mesh.areas[edges1]]")]),
    dict(name="gradient link on the wrong column", edits=[(M_, "cols = np.concatenate([edge_mesh.edges[:, 1], edge_mesh.edges[:, 0]])", "cols = np.concatenate([edge_mesh.edges[:, 0], edge_mesh.edges[:, 1]])")]),
    dict(name="link exponent sign exp(+i A.d)", edits=[(M_, "link_variable_weights = np.exp(\n            -1j * np.einsum(\"ij, ij -> i\", link_exponents, edge_mesh.directions)\n        )\n    edges0", "link_variable_weights = np.exp(\n            1j * np.einsum(\"ij, ij -> i\", link_exponents, edge_mesh.directions)\n        )\n    edges0")]),
    dict(name="neumann uses boundary index as edge index", edits=[(M_, "boundary_edges_length = edge_mesh.edge_lengths[edge_mesh.boundary_edge_indices]", "boundary_edges_length = edge_mesh.edge_lengths[boundary_index]")]),
    dict(name="CSC buffers relabelled as CSR for pardiso", edits=[(M_, "            self.mu_laplacian = sp.csc_matrix(self.mu_laplacian)\n            self.mu_laplacian_lu = None",
                                                                    "            lap = self.mu_laplacian\n            self.mu_laplacian = sp.csr_matrix((lap.data, lap.indices, lap.indptr), shape=lap.shape)\n            self.mu_laplacian_lu = None")], units=["MeshOperators.build_operators"]),
    dict(name="scalar Laplacian pinned on the terminal sites", edits=[(M_, "        self.mu_laplacian, _ = build_laplacian(mesh, weights=self.laplacian_weights)",
                                                                       "        self.mu_laplacian, _ = build_laplacian(mesh, fixed_sites=self.fixed_sites, weights=self.laplacian_weights)")], units=["MeshOperators.build_operators"]),
    dict(name="factorisation of a different matrix", edits=[(M_, "            self.mu_laplacian_lu = sp.linalg.factorized(self.mu_laplacian)", "            self.mu_laplacian_lu = sp.linalg.factorized(self.mu_boundary_laplacian)")], units=["MeshOperators.build_operators"]),
    dict(name="benign: reordered laplacian blocks", expect="pass", edits=[
        (M_, "rows = np.concatenate([edges0, edges1, edges0, edges1])\n    cols = np.concatenate([edges1, edges0, edges0, edges1])", "rows = np.concatenate([edges0, edges1, edges1, edges0])\n    cols = np.concatenate([edges1, edges0, edges1, edges0])"),
        (M_, "            -weights / areas0,\n            -weights / areas1,\n", "            -weights / areas1,\n            -weights / areas0,\n")]),
]


def replay_scope(unit, obl):
    """the native replay of this property searches per unit, not per obligation: run it once per unit"""
    return "unit"


def replay(unit, obl):
    from checks import ops_native
    return ops_native.replay_any(unit, obl)


def thorough(seed=0):
    from pyvc import harness
    from checks import ops_native
    summary, broken = harness.run_mutants("checks.c03", units(), MUTANTS)
    bnd = ops_native.bounded(seed)
    broken = broken + bnd.get("broken", [])
    return dict(coverage=dict(mutants=summary, bounded=bnd, mutants_killed=sum(1 for m in summary if m["verdict"] in ("killed", "not-proved") and m["expect"] == "killed"),
                              mutants_total=sum(1 for m in summary if m["expect"] == "killed")), broken=broken)
