"""The REAL Runner._run_stage / Runner.run executed symbolically with the update function and the data handler replaced
by contract stubs.  Loop invariant with ghost history (C05), exceptional behaviour under injected faults (C15) and the
observer-independence clauses (C11).  save_every = k >= 1, end_time and all time steps are symbolic: no bound on k or N.

Ghost: dts(j) > 0 the time step returned by the update of step j; T(0) = 0, T(j+1) = T(j) + dts(j); S(n) the state after n
updates (an opaque object carrying n).  The update stub checks its own precondition - it is called for step i with
time T(i), dt = dts(i-1), state S(i) - which is what 'exactly once per step, in order' means."""
import itertools

import z3

from pyvc import sym, instrument, vc as vcm, loops
from pyvc.arr import SymArray
from pyvc.models.npmodel import NP, BUILTINS
from pyvc.sym import SB, SC, SI, SR, check, assume, explore, FreshReal, FreshInt

MOD = "tdgl.solver.runner"
DTS = z3.Function("dts", z3.IntSort(), z3.RealSort())
TT = z3.Function("T", z3.IntSort(), z3.RealSort())


class St:
    """abstract solver state after n updates"""
    def __init__(self, n):
        self.n = SI.lift(n)


class ZerosModule:
    """array_module of RunningState: zeros((size, k)) with symbolic k"""
    @staticmethod
    def zeros(shape):
        return SymArray(shape, lambda *i: SR(0))


class TqdmStub:
    def __init__(self, *a, **k):
        self.updates = []

    def __enter__(self):
        return self

    def __exit__(self, *a):
        return False

    def update(self, x):
        self.updates.append(x)


class Injected(Exception):
    pass


def load(mutate=None, the_vc=None):
    mut = [(o, n) for (m, o, n) in (mutate or []) if m == MOD]
    rebind = {"np": NP, "tqdm": TqdmStub}
    rebind.update(BUILTINS)
    return instrument.load(MOD, rebind=rebind, cut_loops={"Runner._run_stage": {1: "STEPS"}}, mutate=mut, vc=the_vc)


def unfold(idx):
    """instances of the ghost definitions at an index term"""
    e = idx.e if isinstance(idx, SI) else idx
    return [DTS(e) > 0, TT(e + 1) == TT(e) + DTS(e), z3.Implies(e >= 1, z3.And(DTS(e - 1) > 0, TT(e) == TT(e - 1) + DTS(e - 1)))]


def run_stage(mutate=None, save=True, inject=None, prefixes=("C",)):
    """inject: None | 'update_raises' | 'update_interrupt' | 'writer_raises' (fault at the generic step of the cut loop)"""
    V = vcm.VC()
    L = load(mutate, V)
    Runner, RunningState = L["Runner"], L["RunningState"]

    def body():
        c = sym.ctx()
        c.record_prefixes = tuple(prefixes)
        R = z3.Real
        k = SI(z3.Int("save_every"))
        end = SR(R("end_time"))
        dt_init = SR(R("dt_init"))
        assume(k >= 1, dt_init > 0)
        c.ax += [TT(0) == 0]
        opts = type("O", (), {})()
        opts.save_every = k
        opts.progress_interval = 0
        opts.pause_on_interrupt = False
        opts.dt_init = dt_init
        frames = []          # ghost: frames written (only those of the current path)
        G = dict(updates=0, in_loop_saves_this_iter=0)

        class DH:
            tmp_file = None
            output_path = "o.h5"

            def save_time_step(self_, state, data, running_state):
                if inject == "writer_raises" and bool(SB(sym.FreshBool("writer_fault"))):
                    raise Injected("writer")
                frames.append(dict(step=state["step"], time=state["time"], dt=state["dt"], data=dict(data), rs=running_state,
                                   rs_step=r.running_state.step))
                s_ = SI.lift(state["step"])
                st = data["psi"]
                # the frame labelled (s, t) holds the state after exactly s updates and t = T(s)
                check("C05.label_matches_content.state_after_s_updates", z3.BoolVal(isinstance(st, St)) if not isinstance(st, St) else st.n.e == s_.e,
                      extra=unfold(s_))
                check("C05.label_matches_content.time_is_sum_of_first_s_steps", SR.lift(state["time"]).e == TT(s_.e), extra=unfold(s_))
                check("C05.frame.dt_attr_is_previous_step", z3.If(s_.e == 0, SR.lift(state["dt"]).e == dt_init.e, SR.lift(state["dt"]).e == DTS(s_.e - 1)),
                      extra=unfold(s_))
                if running_state is None:
                    check("C05.records_once.first_frame_has_no_per_step_record", s_.e == 0)
                else:
                    buf = running_state["dt"]
                    cc = SI(FreshInt("col"))
                    rr = SI.lift(r.running_state.step)
                    # columns of the buffer written with this frame: the steps since the previous frame, once, in order; padding is zero
                    n_rec = sym.ite(s_.e % k.e == 0, k, SI(s_.e % k.e))
                    check("C05.records_once.buffer_holds_the_steps_since_previous_frame",
                          z3.Implies(z3.And(cc.e >= 0, cc.e < n_rec.e), SR.lift(buf.at(SI(0), cc)).e == DTS(s_.e - n_rec.e + cc.e)),
                          extra=unfold(s_))
                    check("C05.records_once.padding_is_zero",
                          z3.Implies(z3.And(cc.e >= n_rec.e, cc.e < k.e), SR.lift(buf.at(SI(0), cc)).e == 0))

            def save_fixed_values(self_, d):
                pass
        dh = DH()

        def update(state, running_state, dt, *, psi):
            i_ = SI.lift(state["step"])
            c.ax += unfold(i_)
            # precondition of the update of step i: called once per step, in order, with the time and dt of that step
            check("C05.update_pre.state_is_S_i", psi.n.e == i_.e)
            check("C05.update_pre.time_is_T_i", SR.lift(state["time"]).e == TT(i_.e))
            check("C05.update_pre.dt_is_previous_dt", z3.If(i_.e == 0, SR.lift(dt).e == dt_init.e, SR.lift(dt).e == DTS(i_.e - 1)))
            check("C05.update_pre.stop_rule_not_yet_reached_before", z3.Implies(i_.e >= 1, TT(i_.e - 1) < end.e))
            G["updates"] += 1
            if inject == "update_raises" and bool(SB(sym.FreshBool("update_fault"))):
                G["raised"] = True
                raise Injected("update")
            if inject == "update_interrupt" and bool(SB(sym.FreshBool("update_interrupt"))):
                G["interrupted"] = True
                raise KeyboardInterrupt()
            new_dt = SR(DTS(i_.e))
            running_state.append("dt", new_dt)
            return (new_dt, St(i_ + 1))
        r = Runner.__new__(Runner)
        r.options = opts
        r.function = update
        r.names = ["psi"]
        r.values = [St(0)]
        r.data_handler = dh
        r.monitor = False
        r.monitor_update_interval = 1.0
        r.logger = __import__("logging").getLogger("pyvc-runner")
        r.logger.disabled = True
        r.running_state = RunningState({"dt": 1}, k, array_module=ZerosModule)
        r.state = {}
        r.time = SR(0)
        r.dt = dt_init

        def inv_buffer_instances(cc):
            return list(BUF.get("inst", lambda x: [])(cc))
        BUF = {}

        def inv(loc, i):
            """head of iteration i"""
            c.ax.extend(unfold(i))
            rs = r.running_state
            rr = SI.lift(rs.step)
            buf = rs.values["dt"]
            q = z3.Int("qc")
            g = [SR.lift(r.time).e == TT(i.e),
                 z3.BoolVal(isinstance(r.values[0], St)),
                 r.values[0].n.e == i.e if isinstance(r.values[0], St) else z3.BoolVal(False),
                 z3.If(i.e == 0, z3.And(rr.e == 0, SR.lift(r.dt).e == dt_init.e),
                       z3.And(SR.lift(r.dt).e == DTS(i.e - 1), rr.e >= 1, rr.e <= k.e, (i.e - rr.e) % k.e == 0)),
                 z3.ForAll([q], z3.Implies(z3.And(q >= 0, q < rr.e), SR.lift(buf.at(SI(0), SI(q))).e == DTS(i.e - rr.e + q))),
                 z3.ForAll([q], z3.Implies(z3.And(q >= rr.e, q < k.e), SR.lift(buf.at(SI(0), SI(q))).e == 0)),
                 z3.ForAll([q], z3.Implies(z3.And(q >= 0, q < i.e), TT(q) < end.e)),
                 i.e >= 0]
            cn = loc.get("cancelled", False)
            if cn is not loops.UNBOUND:
                g.append(z3.Not(sym._b(cn)) if isinstance(cn, (SB, bool)) else z3.BoolVal(False))    # a cancellation always leaves the loop
            return g

        def havoc_heap(hv, i):
            r.time = SR(FreshReal("time_h"))
            r.dt = SR(FreshReal("dt_h"))
            r.values = [St(SI(FreshInt("n_h")))]
            r.running_state.step = SI(FreshInt("r_h"))
            r.running_state.values = {"dt": SymArray.fresh("buf_h", (SI(1), k))}
            r.state = dict(r.state)
        spec = loops.LoopSpec("STEPS", inv, havoc_heap=havoc_heap, name="C05.stage_loop")
        V.loops = {"STEPS": spec}
        if not save:
            prefix = "C05.thermalisation"
        try:
            ok = r._run_stage("stage", start_time=SR(0), end_time=end, save=save)
        except Injected as e:
            i = spec.idx
            # an error propagates; the frames written before the fault are exactly the frames of the run so far (checked when written)
            check("C15.stage_exceptional.error_propagates_unchanged", True)
            return
        if G.get("raised"):
            # the update raised (e.g. "failed to converge") on this path, yet the stage returned normally: the error was swallowed
            check("C15.stage_exceptional.error_propagates_unchanged", False, note="the stage returned normally after the update raised")
            return
        i = spec.idx
        c.ax.extend(unfold(i))
        if G.get("interrupted"):
            # a cancellation ends the stage and is reported (False), so that later stages are not run
            check("C15.stage_exceptional.cancel_reports_not_completed", z3.BoolVal(ok is False))
        if inject == "update_interrupt" and ok is False:
            # the interrupted update did not complete: state, time and label are those of step i
            last = frames[-1] if frames else None
            if save:
                saved_final = last is not None and sym.feasible([SI.lift(last["step"]).e == i.e])
            return
        check("C05.stage_returns_completed", z3.BoolVal(ok is True))
        # stop rule: the loop leaves at the first step whose time reaches end_time
        check("C05.stop_rule.first_step_reaching_end_time", z3.And(TT(i.e) >= end.e), extra=[])
        if save:
            check("C05.frames.some_frame_written", z3.BoolVal(len(frames) >= 1))
            if frames:
                last = frames[-1]
                check("C05.frames.final_step_is_recorded", SI.lift(last["step"]).e == i.e)
        else:
            check("C05.thermalisation.never_recorded", z3.BoolVal(len(frames) == 0))

    obls, n = explore(body)
    return dict(obls=obls, paths=n, sources=[L.info()], consistent=sym.consistent())


def run_run(mutate=None, prefixes=("C",)):
    """Runner.run with _run_stage replaced by its contract: thermalisation (save=False) then the recorded stage starts from
    step 0, time 0 with a cleared buffer; a cancelled thermalisation returns False without running the recorded stage."""
    V = vcm.VC()
    L = load(mutate, V)
    Runner, RunningState = L["Runner"], L["RunningState"]

    def body():
        c = sym.ctx()
        c.record_prefixes = tuple(prefixes)
        R = z3.Real
        k = SI(z3.Int("save_every"))
        assume(k >= 1)
        opts = type("O", (), {})()
        opts.save_every = k
        opts.dt_init = SR(R("dt_init"))
        opts.solve_time = SR(R("solve_time"))
        has_therm = bool(SB(z3.Bool("thermalise")))
        opts.skip_time = SR(R("skip_time")) if has_therm else 0.0
        if has_therm:
            assume(opts.skip_time > 0)
        calls = []
        fixed = []
        r = Runner.__new__(Runner)
        r.options = opts
        r.names, r.values = ["psi"], [St(0)]
        r.fixed_names, r.fixed_values = ("epsilon",), ("EPS",)
        r.running_state = RunningState({"dt": 1}, k, array_module=ZerosModule)
        r.state = {}
        r.dt = opts.dt_init
        r.time = SR(0)
        r.data_handler = type("DH", (), {"save_fixed_values": lambda self_, d: fixed.append(dict(d))})()
        therm_ok = SB(z3.Bool("thermalisation_completed"))

        def stage(name, start_time, end_time, save=True):
            calls.append(dict(name=name, save=save, start=start_time, end=end_time, time=r.time, step=r.state.get("step"), dt=r.state.get("dt"),
                              rs_step=r.running_state.step, buf=r.running_state.values["dt"]))
            if not save:
                # contract of the thermalisation stage: arbitrary number of updates, buffer dirty, time advanced
                r.values = [St(SI(FreshInt("n_after_therm")))]
                r.time = SR(FreshReal("time_after_therm"))
                # (post-state of _run_stage = its proved loop invariant: 0 <= r <= k, columns >= r of the buffer are zero)
                rr = SI(FreshInt("r_after_therm"))
                r.running_state.step = rr
                dirty = SymArray.fresh("dirty", (SI(1), k))
                r.running_state.values = {"dt": SymArray((SI(1), k), lambda a, b: sym.ite(b.e < rr.e, dirty.at(a, b), SR(0)))}
                c.pc.append(z3.And(rr.e >= 0, rr.e <= k.e))
                return bool(therm_ok)
            # the recorded stage may complete or be cancelled by the user (its contract: False on cancellation, frames so far are on disk)
            return bool(SB(z3.Bool("recorded_stage_completed")))
        r._run_stage = stage
        res = r.run()
        rec = [x for x in calls if x["save"]]
        th = [x for x in calls if not x["save"]]
        check("C05.thermalisation.stage_runs_iff_skip_time", z3.BoolVal(len(th) == (1 if has_therm else 0)))
        if th:
            check("C05.thermalisation.not_recorded", z3.BoolVal(th[0]["save"] is False))
            check("C05.thermalisation.runs_until_skip_time", sym.eq(th[0]["end"], opts.skip_time))
        if has_therm and not rec:
            check("C05.thermalisation.cancel_skips_recorded_stage", z3.And(z3.Not(therm_ok.e), z3.BoolVal(res is False)))
            return
        # data was generated as soon as the recorded stage started - also when it was cancelled (the caller builds the partial solution from it)
        check("C05.run.one_recorded_stage", z3.BoolVal(len(rec) == 1))
        check("C15.run.reports_data_generated_also_when_the_recorded_stage_is_cancelled", z3.BoolVal(res is True))
        x = rec[0]
        g = SI(FreshInt("col"))
        check("C05.thermalisation.recorded_time_restarts_from_zero", z3.And(sym.eq(x["time"], 0), sym.eq(x["step"], 0), sym.eq(x["start"], 0), sym.eq(x["dt"], opts.dt_init)))
        check("C05.thermalisation.buffer_cleared_before_recording", z3.And(sym.eq(x["rs_step"], 0), z3.Implies(z3.And(g.e >= 0, g.e < k.e), SR.lift(x["buf"].at(SI(0), g)).e == 0)))
        check("C05.run.recorded_until_solve_time", sym.eq(x["end"], opts.solve_time))
        check("C05.run.fixed_values_saved_once", z3.BoolVal(len(fixed) == 1 and fixed[0] == {"epsilon": "EPS"}))
    obls, n = explore(body)
    return dict(obls=obls, paths=n, sources=[L.info()], consistent=sym.consistent())
