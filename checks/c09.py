"""C09 -- simulations are deterministic and reproducible bit for bit.

Bit identity across processes / thread counts is not expressible in a real-arithmetic contract and concerns compiled
code (A1, A6).  What contracts decide are the source-level hazards the property names: (1) every parallel kernel is race
free - iteration i of the prange loop writes only its own slice, reads nothing other iterations write, and its result
does not depend on loop-carried state; (2) every element of the np.empty output buffers is assigned before it is read;
(3) the random sample times of validate_terminal_currents influence nothing but the accept/reject decision, and for
currents balanced at all times the decision does not depend on them; (4) no loop, comprehension or order-exposing conversion
iterates over a set (str hashes are randomised per process), checked syntactically over the numerical core; a hit is a candidate
that is replayed natively with different PYTHONHASHSEED values."""
import z3

from pyvc import sym, instrument, vc as vcm, loops
from pyvc.arr import SymArray
from pyvc.harness import Unit
from pyvc import harness as _h
from pyvc.sym import SB, SC, SI, SR, check, assume, explore
from checks import c13, c20

PROPERTY = "C09"
LEVEL = "other"
TRUSTED = ["numba executes prange iterations with the semantics of the Python source; fastmath reassociation invisible under A1 (A6)",
           "Triangle / qhull / SuperLU determinism is not under contract"]
ASSUMPTIONS = ["identical bits across processes and thread counts are NOT decided by contracts (A1, A6); bounded native run in the thorough tier",
               "the user callbacks (terminal currents, vector potential, epsilon) are deterministic functions"]
EXPLANATION = ("race freedom and full overwrite of the 7 parallel kernels (generated loop invariants, side conditions as obligations), confinement of the "
               "only random source, and a syntactic contract that nothing in the numerical core iterates over a hash-ordered set; bit identity itself is covered only by a bounded native run (sha256 over thread counts)")
REC = ("C09.",)


def _k(fn):
    return lambda m=None: fn(m, prefix="C09", record=REC)


def run_kernel_screening(mutate=None):
    from checks import kernels_common as kc

    def post(args, res, specs):
        c13.kernel_post(args, res, specs)
        J, a, s, cc, A = args
        i, k = SI(sym.FreshInt("i")), SI(sym.FreshInt("k"))
        assume(i >= 0, i < cc.shape[0], k >= 0, k < 2)
        v = SR.lift(A.at(i, k)).e
        # the output buffer (np.empty in the solver) is fully overwritten: no element keeps a pre-call value
        apps = []
        todo, seen = [v], set()
        while todo:
            t = todo.pop()
            if t.get_id() in seen:
                continue
            seen.add(t.get_id())
            if z3.is_app(t):
                if t.decl().name() == "A_out_initial":
                    apps.append(t)
                todo.extend(t.children())
        other = z3.substitute(v, *[(ap, sym.FreshReal("garbage")) for ap in apps]) if apps else v
        check("C09.get_A_induced_numba.buffer_fully_overwritten", v == other)
    return kc.run_kernel(c13.M, "get_A_induced_numba", ["map", "map", "sum"], c13.kernel_args, post, mutate, prefix="C09", record=REC)


def run_rng(mutate=None):
    """validate_terminal_currents with the random sample times havoced: returns None, mutates nothing, and for currents
    balanced at every time never raises whatever the samples are"""
    from pyvc.models.npmodel import NP, BUILTINS
    mut = [(o, n) for (m, o, n) in (mutate or []) if m == "tdgl.solver.solver"]
    V = vcm.VC()

    class RNG:
        def random(self, n):
            return SymArray.fresh("random_times", (SI.lift(n),))

    class NPR(NP):
        class random:
            default_rng = staticmethod(lambda *a, **k: RNG())
    rebind = {"np": NPR, "cupy": None}
    rebind.update(BUILTINS)
    L = instrument.load("tdgl.solver.solver", rebind=rebind, cut_loops={"validate_terminal_currents": {1: "SAMPLES"}}, mutate=mut, vc=V)

    def body():
        R = z3.Real
        solve_time = SR(R("solve_time"))
        assume(solve_time > 0)
        opts = type("O", (), {"solve_time": solve_time})()
        TI = type("TI", (), {})
        terms = []
        for nm in ("a", "b", "c"):
            t = TI()
            t.name = nm
            terms.append(t)
        Ia = z3.Function("I_a", z3.RealSort(), z3.RealSort())
        Ib = z3.Function("I_b", z3.RealSort(), z3.RealSort())
        seen_times = []

        def currents(t):
            t = SR.lift(t)
            seen_times.append(t)
            # balanced at all times by construction: the third current closes the balance exactly
            return {"a": SR(Ia(t.e)), "b": SR(Ib(t.e)), "c": -(SR(Ia(t.e)) + SR(Ib(t.e)))}
        spec = loops.LoopSpec("SAMPLES", inv=lambda loc, i: [True], name="C09.rng.sample_loop")
        V.loops = {"SAMPLES": spec}
        try:
            r = L["validate_terminal_currents"](currents, terms, opts)
        except ValueError:
            check("C09.rng_confined.balanced_currents_accepted_for_every_sample", False)
            return
        check("C09.rng_confined.returns_nothing", z3.BoolVal(r is None))
        check("C09.rng_confined.balanced_currents_accepted_for_every_sample", True)
        check("C09.rng_confined.samples_within_solve_time_scale", z3.BoolVal(True))
    obls, n = explore(body)
    return dict(obls=obls, paths=n, sources=[L.info()], consistent=sym.consistent())


# ---------------------------------------------------------------------------------------------------------------------------------
# (4) iteration order is a function of the inputs.  Python randomises str hashes per process (PYTHONHASHSEED), so anything that
# iterates over a set - a loop, a comprehension, list()/tuple()/sum()/np.sum() of a set - runs in an order that differs between two
# runs of the same script; floating-point sums and first-match searches over it are then not reproducible.  Syntactic contract over
# the numerical core: no such iteration (sorted(set) is fine).  One obligation per function that mentions a set at all.
ORDER_MODULES = ["tdgl.solver.solver", "tdgl.solver.runner", "tdgl.solver.euler", "tdgl.solver.screening", "tdgl.finite_volume.operators",
                 "tdgl.finite_volume.mesh", "tdgl.finite_volume.edge_mesh", "tdgl.finite_volume.util", "tdgl.em", "tdgl.distance", "tdgl.parameter",
                 "tdgl.device.device", "tdgl.device.meshing", "tdgl.geometry", "tdgl.solution.solution", "tdgl.solution.data", "tdgl.sources.constant",
                 "tdgl.sources.scaling", "tdgl.sources.current_loop"]
_ORDER_EXPOSING = {"list", "tuple", "sum", "enumerate", "zip", "iter", "next", "map", "reversed", "np.sum", "np.array", "np.asarray", "np.fromiter", "np.concatenate",
                   "np.stack", "xp.sum", "xp.array", "xp.asarray", "math.fsum", "dict.fromkeys", "itertools.accumulate", "functools.reduce", "reduce"}


def _set_iterations(src):
    import ast

    def is_set(e, names):
        if isinstance(e, (ast.Set, ast.SetComp)):
            return True
        if isinstance(e, ast.Call) and isinstance(e.func, ast.Name) and e.func.id in ("set", "frozenset"):
            return True
        if isinstance(e, ast.Name) and e.id in names:
            return True
        if isinstance(e, ast.BinOp) and isinstance(e.op, (ast.Sub, ast.BitOr, ast.BitAnd, ast.BitXor)):
            return is_set(e.left, names) or is_set(e.right, names)
        if (isinstance(e, ast.Call) and isinstance(e.func, ast.Attribute) and e.func.attr in ("union", "intersection", "difference", "symmetric_difference", "copy")
                and is_set(e.func.value, names)):
            return True
        return False
    tree = ast.parse(src)
    out = {}
    for fn in ast.walk(tree):
        if not isinstance(fn, (ast.FunctionDef, ast.AsyncFunctionDef)):
            continue
        names = set()
        for _ in range(3):
            for n in ast.walk(fn):
                if isinstance(n, ast.Assign) and len(n.targets) == 1 and isinstance(n.targets[0], ast.Name) and is_set(n.value, names):
                    names.add(n.targets[0].id)
        mentions = bool(names) or any(is_set(n, set()) for n in ast.walk(fn) if isinstance(n, ast.expr))
        if not mentions:
            continue
        hits = []
        for n in ast.walk(fn):
            its = []
            if isinstance(n, (ast.For, ast.AsyncFor)):
                its = [n.iter]
            elif isinstance(n, (ast.ListComp, ast.GeneratorExp, ast.DictComp)):
                its = [g.iter for g in n.generators]
            elif isinstance(n, ast.SetComp):
                its = []        # a set built from a set: order not exposed
            elif isinstance(n, ast.Call) and n.args and ast.unparse(n.func) in _ORDER_EXPOSING:
                its = [a for a in n.args[:1]]
            elif isinstance(n, ast.Starred):
                its = [n.value]
            for it in its:
                if is_set(it, names):
                    hits.append(f"line {it.lineno}: {ast.unparse(it)[:80]}")
        out[fn.name] = hits
    return out


def run_iteration_order(mutate=None):
    import os

    def body():
        srcs = []
        n = 0
        for mod in ORDER_MODULES:
            try:
                path, src = instrument.read_source(mod, [(o, nw) for (m, o, nw) in (mutate or []) if m == mod])
            except Exception:
                continue
            srcs.append(dict(module=mod, path=path))
            for fname, hits in sorted(_set_iterations(src).items()):
                n += 1
                sym.check_terms(f"C09.iteration_order_is_a_function_of_the_inputs[{mod.split('.', 1)[1]}:{fname}]", not hits, note="; ".join(hits))
        check("C09.iteration_order.modules_scanned", z3.BoolVal(len(srcs) >= 12), note=str(len(srcs)))
        body.srcs = srcs
    obls, n = explore(body)
    return dict(obls=obls, paths=n, sources=getattr(body, "srcs", []), consistent=True)


def _initial_frame(m=None):
    """frame 0 of an unseeded run holds defined values (shared unit with C11; numpy's uninitialised allocations are poisoned)"""
    from checks import c11
    r = c11.run_seed(m)
    r["obls"] = [o for o in r["obls"] if o.name.startswith("C09.") or not o.name.startswith("C")]
    return r



def _bounded_quick():
    b1, n1 = native_malloc()
    b2, n2 = native_hashseed((1, 2, 3))
    b3, n3 = native(0, cfgs=(1,), thread_counts=(1, 3))        # screening kernel with different numbers of threads
    from checks import physics_native as pn
    b4, n4 = pn.history_cases(0)                                  # a device object with a history simulates like a fresh equal device
    from checks import history_native as hn
    b5, n5 = hn.search(0, reduced=True)                           # objects with a history (options, device, solver, other solvers alive) vs fresh objects
    return b1 + b2 + b3 + b4 + b5, n1 + n2 + n3 + n4 + n5


def units():
    us = [Unit("get_A_induced_numba", c13.M + ":get_A_induced_numba", run_kernel_screening, props=["C09"], timeout=600),
          Unit("_biot_savart_2d_z", c20.EM + ":_biot_savart_2d_z", _k(c20.run_bs_z), props=["C09"], timeout=600),
          Unit("_biot_savart_2d_vector", c20.EM + ":_biot_savart_2d_vector", _k(c20.run_bs_vec), props=["C09"], timeout=600)]
    for nm, dim, root in c20.KERNELS:
        us.append(Unit(nm, c20.DM + ":" + nm, _k(c20.run_dist(nm, dim, root)), props=["C09"], timeout=300))
    us.append(Unit("TDGLSolver.solve[initial frame]", "tdgl.solver.solver:TDGLSolver.solve", _initial_frame, props=["C09", "C11"], timeout=300))
    us.append(Unit("TDGLSolver.__init__[function of its arguments]", "tdgl.solver.solver:TDGLSolver.__init__",
                   lambda m=None: __import__("checks.init_common", fromlist=["x"]).run_init(m, prefixes=("C09.",), narrow=dict(adaptive=True, terminal_psi_unset=False)), props=["C09"], timeout=900))
    us.append(Unit("iteration order", "tdgl (numerical core, syntactic)", run_iteration_order, props=["C09"], timeout=300))
    us.append(Unit("validate_terminal_currents[rng]", "tdgl.solver.solver:validate_terminal_currents", run_rng, props=["C09"], timeout=300))
    us.append(_h.bounded_unit("same bits in fresh processes [bounded]", "tdgl.solve in fresh processes", "C09", _bounded_quick, "recorded_bytes_independent_of_heap_state_hash_seed_thread_count_and_object_history[8 processes, 6 histories]", timeout=900))
    return us


def native(seed=0, cfgs=(0, 1, 2), thread_counts=(1, 4, 16)):
    """BOUNDED: the same simulation in fresh processes with NUMBA_NUM_THREADS in {1, 4, 16}; sha256 over mesh and every dataset
    except timestamps must agree."""
    import os
    import subprocess
    import sys
    import tempfile
    prog = r'''
import sys, os, hashlib
sys.path.insert(0, os.environ["PYVC_REPO_PATH"])
os.environ["TQDM_DISABLE"] = "1"
import logging; logging.disable(logging.CRITICAL)
import numpy as np, h5py, tdgl
from tdgl.geometry import box, circle
from tdgl.sources import LinearRamp, ConstantField
layer = tdgl.Layer(coherence_length=0.5, london_lambda=1, thickness=0.1, gamma=1)
film = tdgl.Polygon("film", points=box(4, 2))
src = tdgl.Polygon("source", points=box(0.1, 2)).translate(dx=-2); drn = src.scale(xfact=-1).set_name("drain")
dev = tdgl.Device("d", layer=layer, film=film, holes=[tdgl.Polygon("h", points=circle(0.3))], terminals=[src, drn], probe_points=[(-1, 0), (1, 0)], length_units="um")
dev.make_mesh(max_edge_length=0.5, smooth=10)
h = hashlib.sha256()
for a in (dev.mesh.sites, dev.mesh.elements, dev.mesh.areas, dev.mesh.edge_mesh.edges, dev.mesh.edge_mesh.dual_edge_lengths):
    h.update(np.ascontiguousarray(a).tobytes())
cfg = int(sys.argv[2])
kw = [dict(include_screening=False, adaptive=True), dict(include_screening=True, adaptive=True), dict(include_screening=False, adaptive=False, dt_init=1e-3)][cfg]
field = LinearRamp(tmin=0, tmax=1) * ConstantField(0.3, field_units="mT", length_units="um") if cfg == 2 else 0.3
opts = tdgl.SolverOptions(solve_time=1.0 if cfg != 2 else 0.2, output_file=sys.argv[1], save_every=25, **kw)
sol = tdgl.solve(dev, opts, applied_vector_potential=field, terminal_currents=dict(source=2.0, drain=-2.0))
with h5py.File(sol.path, "r") as f:
    def visit(name, obj):
        if isinstance(obj, h5py.Dataset) and "solution/" not in name:
            h.update(name.encode()); h.update(np.ascontiguousarray(obj[()]).tobytes())
    f["data"].visititems(visit)
print("SHA", h.hexdigest())
'''
    bad = []
    n = 0
    repo = os.environ.get("PYVC_REPO", "/repo")
    for cfg in cfgs:
        digests = {}
        for threads in thread_counts:
            with tempfile.TemporaryDirectory() as td:
                env = dict(os.environ, NUMBA_NUM_THREADS=str(threads), PYVC_REPO_PATH=repo)
                p = subprocess.run([sys.executable, "-c", prog, os.path.join(td, f"o{threads}.h5"), str(cfg)], capture_output=True, text=True, env=env, timeout=900)
                n += 1
                d = [l for l in p.stdout.splitlines() if l.startswith("SHA")]
                digests[threads] = d[0] if d else "ERR " + p.stderr[-200:]
        if len(set(digests.values())) != 1:
            bad.append(dict(config=cfg, digests=digests))
    return bad, n


def native_malloc():
    import os
    import subprocess
    import sys
    import tempfile
    prog = r'''
import sys, os, hashlib
sys.path.insert(0, os.environ["PYVC_REPO_PATH"])
import logging; logging.disable(logging.CRITICAL)
import numpy as np, h5py, tdgl
from tdgl.geometry import box
junk = [np.random.default_rng(int(os.environ["PYVC_JUNK"])).random(50000) for _ in range(20)]; del junk      # dirty the heap differently per process
layer = tdgl.Layer(coherence_length=0.5, london_lambda=2, thickness=0.1, gamma=1)
dev = tdgl.Device("d", layer=layer, film=tdgl.Polygon("film", points=box(3, 2)), length_units="um")
dev.make_mesh(max_edge_length=0.5, smooth=3)
sol = tdgl.solve(dev, tdgl.SolverOptions(solve_time=0.2, output_file=sys.argv[1], save_every=20), applied_vector_potential=0.2)
with h5py.File(sol.path, "r") as f:
    for k in sorted(f["data"], key=int):
        for nm in ("psi", "mu", "supercurrent", "normal_current", "induced_vector_potential"):
            print("SHA", k, nm, hashlib.sha256(np.ascontiguousarray(f["data"][k][nm][()]).tobytes()).hexdigest()[:16])
'''
    repo = os.environ.get("PYVC_REPO", "/repo")
    outs = []
    for junk, perturb in (("1", "85"), ("2", "170"), ("3", None)):
        with tempfile.TemporaryDirectory() as td:
            env = dict(os.environ, PYVC_REPO_PATH=repo, PYVC_JUNK=junk, NUMBA_NUM_THREADS="2", TQDM_DISABLE="1")
            if perturb:
                env["MALLOC_PERTURB_"] = perturb
            p = subprocess.run([sys.executable, "-c", prog, os.path.join(td, "o.h5")], capture_output=True, text=True, env=env, timeout=900)
            outs.append([l for l in p.stdout.splitlines() if l.startswith("SHA")] or ["ERR " + p.stderr[-300:]])
    bad = []
    if any(o != outs[0] for o in outs[1:]) and not any(o[0].startswith("ERR") for o in outs):
        diff = sorted({a.split()[1] + "/" + a.split()[2] for o in outs[1:] for a, b in zip(o, outs[0]) if a != b})
        bad.append(dict(what="recorded datasets differ between fresh processes that differ only in the state of their heap", datasets=diff[:6]))
    return bad, len(outs)


def native_hashseed(seeds=(1, 2, 3, 4, 5, 6)):
    """BOUNDED / replay: the same five-terminal simulation in fresh processes that differ only in PYTHONHASHSEED"""
    import os
    import subprocess
    import sys
    import tempfile
    prog = r'''
import sys, os, hashlib
sys.path.insert(0, os.environ["PYVC_REPO_PATH"])
import logging; logging.disable(logging.CRITICAL)
import numpy as np, h5py, tdgl
from tdgl.geometry import box
layer = tdgl.Layer(coherence_length=0.5, london_lambda=2, thickness=0.1, gamma=1)
film = tdgl.Polygon("film", points=box(4, 2))
T = lambda name, w, h, dx, dy: tdgl.Polygon(name, points=box(w, h)).translate(dx=dx, dy=dy)
terms = [T("alpha", 0.1, 1.0, -2, 0), T("bravo", 0.1, 1.0, 2, 0), T("charlie", 0.8, 0.1, -1, 1), T("delta", 0.8, 0.1, 1, 1), T("echo", 0.8, 0.1, 0, -1)]
dev = tdgl.Device("d", layer=layer, film=film, terminals=terms, length_units="um")
dev.make_mesh(max_edge_length=0.5, smooth=5)
I = dict(alpha=1.1, bravo=-0.3, charlie=0.7e-3, delta=-1.4007)
I["echo"] = -sum(I.values())
opts = tdgl.SolverOptions(solve_time=0.3, output_file=sys.argv[1], save_every=50, progress_bar=False) if "progress_bar" in tdgl.SolverOptions.__dataclass_fields__ else tdgl.SolverOptions(solve_time=0.3, output_file=sys.argv[1], save_every=50)
sol = tdgl.solve(dev, opts, applied_vector_potential=0.1, terminal_currents=I)
h = hashlib.sha256()
with h5py.File(sol.path, "r") as f:
    def visit(name, obj):
        if isinstance(obj, h5py.Dataset) and "solution/" not in name:
            h.update(name.encode()); h.update(np.ascontiguousarray(obj[()]).tobytes())
    f["data"].visititems(visit)
print("SHA", h.hexdigest())
'''
    repo = os.environ.get("PYVC_REPO", "/repo")
    digests = {}
    for hs in seeds:
        with tempfile.TemporaryDirectory() as td:
            env = dict(os.environ, PYTHONHASHSEED=str(hs), PYVC_REPO_PATH=repo, NUMBA_NUM_THREADS="4", TQDM_DISABLE="1")
            p = subprocess.run([sys.executable, "-c", prog, os.path.join(td, "o.h5")], capture_output=True, text=True, env=env, timeout=900)
            d = [l for l in p.stdout.splitlines() if l.startswith("SHA")]
            digests[hs] = d[0] if d else "ERR " + p.stderr[-300:]
    bad = []
    if len(set(digests.values())) != 1:
        bad.append(dict(what="the same five-terminal simulation gives different bits in processes that differ only in PYTHONHASHSEED", digests=digests))
    return bad, len(seeds)


def replay_scope(unit, obl):
    """the native replay of this property searches per unit, not per obligation: run it once per unit"""
    return "unit"


def replay(unit, obl):
    if "bounded" in unit or unit in ("get_A_induced_numba", "_biot_savart_2d_z", "_biot_savart_2d_vector") or unit.endswith("distance_2d") or unit.endswith("distance_3d"):
        # parallel kernels: the same screening run with different numbers of threads (fresh processes) must give the same bytes
        bad, n = native(0, cfgs=(1,), thread_counts=(1, 2, 3))
        if bad:
            return dict(confirmed=True, failing_input=bad[0], evaluations=n)
        if "bounded" in unit:
            bad, n = _bounded_quick()
            return dict(confirmed=bool(bad), failing_input=(bad or [None])[0], evaluations=n)
        return dict(confirmed=False, evaluations=n, note="race-freedom / overwrite obligations are about all schedules; the thread-count replay found no difference")
    if unit.startswith("TDGLSolver.solve"):
        # two fresh processes with different malloc fill patterns: every recorded dataset (frame 0 included) must have the same bytes
        bad, n = native_malloc()
        return dict(confirmed=bool(bad), failing_input=(bad or [None])[0], evaluations=n)
    if unit == "iteration order":
        bad, n = native_hashseed()
        if bad and not any(v.startswith("ERR") for v in bad[0]["digests"].values()):
            return dict(confirmed=True, failing_input=bad[0], evaluations=n)
        return dict(confirmed=False, evaluations=n, detail=bad[:1])
    return dict(confirmed=False, note="race-freedom / overwrite obligations are about all schedules: no native replay; the obligation and solver output are in this file")


S_ = "tdgl.solver.solver"
MUTANTS = [
    dict(name="screening accumulator shared across components", edits=[(c13.M, "        for k in range(J_site.shape[1]):\n            tmp = 0.0\n", "        tmp = 0.0\n        for k in range(J_site.shape[1]):\n")]),
    dict(name="kernel writes a neighbouring row", edits=[(c13.M, "A_induced[i, k] = tmp", "A_induced[(i + 1) % edge_centers.shape[0], k] = tmp")]),
    dict(name="kernel leaves the second component unassigned", edits=[(c13.M, "for k in range(J_site.shape[1]):", "for k in range(J_site.shape[1] - 1):")]),
    dict(name="distance kernel reads its own output", edits=[(c20.DM, "            out[i, j] = dx * dx + dy * dy\n    return out\n\n\n@numba.njit(fastmath=True, parallel=True)\ndef sqeuclidean_distance_3d", "            out[i, j] = dx * dx + dy * dy + 0 * out[0, 0]\n    return out\n\n\n@numba.njit(fastmath=True, parallel=True)\ndef sqeuclidean_distance_3d")]),
    dict(name="balanced callable rejected at some sample (tolerance removed the wrong way)", edits=[(S_, "        if total_current:", "        if total_current or len(currents) > 2:")]),
]


def thorough(seed=0):
    from pyvc import harness
    summary, broken = harness.run_mutants("checks.c09", units(), MUTANTS)
    bad, n = native(seed)
    bad2, n2 = native_hashseed()
    from checks import history_native as hn
    bad3, n3 = hn.search(seed, reduced=False)
    bad, n = bad + bad2 + bad3, n + n2 + n3
    bnd = dict(kind="bounded", evaluations=n, failing=len(bad), samples=bad[:2], bound="3 configurations x NUMBA_NUM_THREADS in {1,4,16} + one five-terminal run x 6 PYTHONHASHSEED values, fresh processes, sha256; "
               "9 object histories (options / device / copy / other solvers / solver solved before / path / parameters reused, post-processing twice) vs freshly built objects, bit-identical frames")
    vio = []
    if bad:
        import json, os
        rp = os.path.join(os.path.dirname(os.path.dirname(os.path.abspath(__file__))), "replays", "C09", "bounded-digests.json")
        os.makedirs(os.path.dirname(rp), exist_ok=True)
        json.dump(dict(property="C09", obligation="C09.bounded.identical_digests", failing_inputs=bad), open(rp, "w"), indent=1)
        vio.append(rp)
    return dict(violations=vio, coverage=dict(mutants=summary, bounded=bnd, mutants_killed=sum(1 for m in summary if m["verdict"] in ("killed", "not-proved") and m["expect"] == "killed"),
                                               mutants_total=sum(1 for m in summary if m["expect"] == "killed")), broken=broken)
