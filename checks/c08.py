"""C08 -- results do not depend on the unit system used to state the problem."""
import math

import z3

from pyvc import sym
from pyvc.harness import Unit
from pyvc import harness as _h
from pyvc.sym import SI, SR, check, assume, explore
from checks import init_common as ic

PROPERTY = "C08"
LEVEL = "proof"
TRUSTED = ["pint model (pyvc/models/pintmodel.py): a unit is a positive real scale factor with dimension exponents; to_base_units().magnitude multiplies them",
           "'same dimensionless solution' follows because the run is a function of the dimensionless data (corollary over C01/C02/C12/C13; mu up to a constant, psi up to a global phase - A5)"]
ASSUMPTIONS = ["the same dimensionless MESH is shared (Triangle's refinement is not unit-covariant bit-wise: 268 vs 269 sites for um vs nm of the same device)",
               "Solution.field_at_position's kernel call is under a call contract (units handed over), Solution.current_density and vector_potential_at_position are "
               "executed with symbolic unit factors; magnetic_moment / polygon_fluxoid / get_current_through_paths unit handling only in the bounded native run"]
EXPLANATION = "the real constructor + Device.Bc2/A0/K0 executed with SYMBOLIC unit scale factors: the dimensionless data equal expressions in physical quantities only"


def run_flux(mutate=None):
    """gauge phase around a triangle in a uniform field = 2 pi * flux / Phi_0 for ANY recentring of the linear potential
    (lemma over the formula of uniform_Bz_vector_potential: A = B/2 (-(y-yc), x-xc) evaluated at edge centres, times A_scale)"""
    def body():
        R = z3.Real
        ax, ay, bx, by, cx, cy = [SR(R(n)) for n in ("ax", "ay", "bx", "by", "cx", "cy")]      # dimensionless sites of one triangle
        B, xc, yc, xi, phi0 = SR(R("B_si")), SR(R("xc")), SR(R("yc")), SR(R("xi_si")), SR(R("Phi_0"))
        assume(xi > 0, phi0 > 0)
        pi = SR(math.pi)
        Bc2 = phi0 / (2 * pi * xi * xi)

        def A_phys(x, y):      # vector potential at a physical point (any centre xc, yc: gauge choice)
            return (-(B * (y - yc)) / 2, (B * (x - xc)) / 2)

        def link(x0, y0, x1, y1):
            # dimensionless link exponent of the edge: A_scale * A(centre) . d  with A_scale = 1/(Bc2 xi), centre and d in units of xi
            mx, my = (x0 + x1) / 2 * xi, (y0 + y1) / 2 * xi
            Ax, Ay = A_phys(mx, my)
            return (Ax * (x1 - x0) + Ay * (y1 - y0)) / (Bc2 * xi)
        circ = link(ax, ay, bx, by) + link(bx, by, cx, cy) + link(cx, cy, ax, ay)
        area_phys = ((bx - ax) * (cy - ay) - (by - ay) * (cx - ax)) / 2 * xi * xi
        check("C08.flux_per_triangle", sym.eq(circ * phi0, 2 * pi * B * area_phys))
        # two different recentrings differ by a constant vector = gradient of a linear gauge function (C04.recentre_is_gauge)
        xc2, yc2 = SR(R("xc2")), SR(R("yc2"))
        x, y = SR(R("x")), SR(R("y"))
        d0 = (-(B * (y - yc)) / 2 - (-(B * (y - yc2)) / 2), (B * (x - xc)) / 2 - (B * (x - xc2)) / 2)
        check("C04.recentre_is_gauge.difference_is_a_constant_vector", z3.And(sym.eq(d0[0], B * (yc - yc2) / 2), sym.eq(d0[1], B * (xc2 - xc) / 2)))
    obls, n = explore(body)
    return dict(obls=obls, paths=n, sources=[], consistent=sym.consistent())



def _bounded_quick():
    from checks import physics_native as pn
    b1, n1 = pn.units_cases(0, reduced=True)
    b2, n2 = pn.history_cases(0)
    return b1 + b2, n1 + n2


def units():
    return [Unit("TDGLSolver.__init__", "tdgl.solver.solver:TDGLSolver.__init__ + tdgl.device.device:Device.Bc2/A0/K0", lambda m=None: ic.run_init(m, prefixes=("C08.",)), props=["C08"], timeout=900),
            Unit("Solution.field_at_position[call contract]", "tdgl.solution.solution:Solution.field_at_position",
                 lambda m=None: __import__("checks.c20", fromlist=["x"]).run_field_at_position(m, prefixes=("C08.",)), props=["C08"], timeout=300),
            Unit("Solution.vector_potential_at_position", "tdgl.solution.solution:Solution.vector_potential_at_position",
                 lambda m=None: __import__("checks.solution_common", fromlist=["x"]).run_vector_potential(m, prefixes=("C08.",)), props=["C08", "C20"], timeout=900),
            Unit("Solution.load_tdgl_data[current density]", "tdgl.solution.solution:Solution.load_tdgl_data / current_density + tdgl.device.device:Device.K0",
                 lambda m=None: __import__("checks.solution_common", fromlist=["x"]).run_current_density(m, prefixes=("C08.",)), props=["C08", "C20"], timeout=300),
            Unit("uniform_Bz_vector_potential / ConstantField", "tdgl.em:uniform_Bz_vector_potential + tdgl.sources.constant:constant_field_vector_potential",
                 lambda m=None: __import__("checks.field_common", fromlist=["x"]).run_uniform_field(m, prefixes=("C08.", "C04.")), props=["C08", "C04"], timeout=300),
            Unit("Device.rotate / scale / translate / copy [units kept]", "tdgl.device.device:Device.rotate, Device.scale, Device.translate, Device.copy",
                 lambda m=None: __import__("checks.c18", fromlist=["x"]).run_device_transforms(m, prefixes=("C08.",)), props=["C08", "C18"], timeout=300),
            Unit("Device.make_mesh", "tdgl.device.device:Device.make_mesh / _create_dimensionless_mesh / points / edge_lengths / areas",
                 lambda m=None: __import__("checks.mesh_common", fromlist=["x"]).run_make_mesh(m, prefixes=("C08.",)), props=["C08", "C07"], timeout=300),
            Unit("flux per triangle", "lemma over the formula of tdgl.em:uniform_Bz_vector_potential", run_flux, props=["C08", "C04"], timeout=300),
            _h.bounded_unit("physical outputs across unit systems [bounded]", "tdgl.solve / Solution (real runs on one shared mesh)", "C08", _bounded_quick, "same_physical_outputs_in_different_unit_systems[um/mm/nm, static and ramped field]", timeout=900)]


def replay_scope(unit, obl):
    """the native replay of this property searches per unit, not per obligation: run it once per unit"""
    return "unit"


def replay(unit, obl):
    import tdgl
    from checks import physics_native as pn
    if unit.startswith("Device.rotate"):
        from checks import c18
        bad, n = c18.native(0, 3)
        bad = [b for b in bad if "length units" in b.get("what", "")]
        if bad:
            return dict(confirmed=True, failing_input=bad[0], n_failing=len(bad), evaluations=n, tdgl_file=tdgl.__file__)
    if unit.startswith("uniform_Bz_vector_potential"):
        from checks import field_common
        bad, n = field_common.native(0)
        if bad:
            return dict(confirmed=True, failing_input=bad[0], n_failing=len(bad), evaluations=n, tdgl_file=tdgl.__file__)
    bad, n = pn.units_cases(0)
    b2, n2 = pn.conservation_cases(0)
    bad += [x for x in b2 if "requested" in x["what"]]
    if bad:
        return dict(confirmed=True, failing_input=bad[0], n_failing=len(bad), evaluations=n + n2, tdgl_file=tdgl.__file__,
                    note="paired real runs of one physical device in different unit systems on one shared dimensionless mesh")
    return dict(confirmed=False, evaluations=n + n2, tdgl_file=tdgl.__file__)


S_ = "tdgl.solver.solver"
D_ = "tdgl.device.device"
MUTANTS = [
    dict(name="current density: K0 left in SI units", edits=[("tdgl.solution.solution", "K0 = self.device.K0.to(f\"{self.current_units} / {self.device.length_units}\")", "K0 = self.device.K0")], units=["Solution.load_tdgl_data[current density]"]),
    dict(name="vector potential: applied part not converted to the requested units", edits=[("tdgl.solution.solution", "applied = (applied * ureg(f\"{self.field_units} * {device.length_units}\")).to(\n            units\n        )", "applied = (applied * ureg(f\"{self.field_units} * {device.length_units}\"))")], units=["Solution.vector_potential_at_position"]),
    dict(name="J_scale without to_base_units", edits=[(S_, "J_scale = 4 * ((ureg(current_units) / length_units) / K0).to_base_units()", "J_scale = 4 * (ureg(current_units) / length_units) / K0")]),
    dict(name="screening scale in 1/um", edits=[(S_, "A_scale = (ureg(\"mu_0\") / (4 * np.pi) * K0 / A0).to(1 / length_units)", "A_scale = (ureg(\"mu_0\") / (4 * np.pi) * K0 / A0).to_base_units()")]),
    dict(name="A_scale misses the length unit in the numerator", edits=[(S_, "(ureg(field_units) * length_units / (Bc2 * xi * length_units))", "(ureg(field_units) * ureg(\"m\") / (Bc2 * xi * length_units))")]),
    dict(name="field_at_position forgets the device length units", edits=[("tdgl.solution.solution", "                length_units=device.length_units,\n                current_units=self.current_units,\n                vector=vector,", "                current_units=self.current_units,\n                vector=vector,")]),
    dict(name="Bc2 with xi instead of xi^2", edits=[(D_, "(2 * np.pi * self.coherence_length**2)", "(2 * np.pi * self.coherence_length)")]),
    dict(name="K0 misses the factor 4", edits=[(D_, "K0 = 4 * self.coherence_length * self.Bc2 / (ureg(\"mu_0\") * self.Lambda)", "K0 = self.coherence_length * self.Bc2 / (ureg(\"mu_0\") * self.Lambda)")]),
] + __import__("checks.field_common", fromlist=["x"]).MUTANTS + [
    dict(name="kernel areas use xi instead of xi^2", edits=[(S_, "self.areas = A_scale.magnitude * mesh.areas * xi**2", "self.areas = A_scale.magnitude * mesh.areas * xi")]),
]


def thorough(seed=0):
    from pyvc import harness
    from checks import physics_native as pn
    summary, broken = harness.run_mutants("checks.c08", units(), MUTANTS)
    bad, n = pn.units_cases(seed)
    bnd = dict(kind="bounded", evaluations=n, failing=len(bad), samples=bad[:3], bound="7 unit systems (um/nm/mm, mT/uT/T, uA/nA/mA, screening on/off) on one shared dimensionless mesh")
    if bad:
        broken.append(f"paired native runs depend on the unit system: {bad[0]}")
    return dict(coverage=dict(mutants=summary, bounded=bnd, mutants_killed=sum(1 for m in summary if m["verdict"] in ("killed", "not-proved") and m["expect"] == "killed"),
                              mutants_total=sum(1 for m in summary if m["expect"] == "killed")), broken=broken)
