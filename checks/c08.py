"""C08 -- results do not depend on the unit system used to state the problem."""
import math

import z3

from pyvc import sym
from pyvc.harness import Unit
from pyvc import harness as _h
from pyvc.sym import SB, SI, SR, check, assume, explore
from checks import init_common as ic

PROPERTY = "C08"
LEVEL = "proof"
TRUSTED = ["pint model (pyvc/models/pintmodel.py): a unit is a positive real scale factor with dimension exponents; to_base_units().magnitude multiplies them",
           "'same dimensionless solution' follows because the run is a function of the dimensionless data (corollary over C01/C02/C12/C13; mu up to a constant, psi up to a global phase - A5)"]
ASSUMPTIONS = ["the same dimensionless MESH is shared (Triangle's refinement is not unit-covariant bit-wise: 268 vs 269 sites for um vs nm of the same device)",
               "Solution.field_at_position's kernel call is under a call contract (units handed over), Solution.current_density and vector_potential_at_position are "
               "executed with symbolic unit factors; magnetic_moment / polygon_fluxoid / get_current_through_paths unit handling only in the bounded native run"]
EXPLANATION = "the real constructor + Device.Bc2/A0/K0 executed with SYMBOLIC unit scale factors: the dimensionless data equal expressions in physical quantities only"


def run_flux(mutate=None):
    """gauge phase around a triangle in a uniform field = 2 pi * flux / Phi_0 for ANY recentring of the linear potential
    (lemma over the formula of uniform_Bz_vector_potential: A = B/2 (-(y-yc), x-xc) evaluated at edge centres, times A_scale)"""
    def body():
        R = z3.Real
        ax, ay, bx, by, cx, cy = [SR(R(n)) for n in ("ax", "ay", "bx", "by", "cx", "cy")]      # dimensionless sites of one triangle
        B, xc, yc, xi, phi0 = SR(R("B_si")), SR(R("xc")), SR(R("yc")), SR(R("xi_si")), SR(R("Phi_0"))
        assume(xi > 0, phi0 > 0)
        pi = SR(math.pi)
        Bc2 = phi0 / (2 * pi * xi * xi)

        def A_phys(x, y):      # vector potential at a physical point (any centre xc, yc: gauge choice)
            return (-(B * (y - yc)) / 2, (B * (x - xc)) / 2)

        def link(x0, y0, x1, y1):
            # dimensionless link exponent of the edge: A_scale * A(centre) . d  with A_scale = 1/(Bc2 xi), centre and d in units of xi
            mx, my = (x0 + x1) / 2 * xi, (y0 + y1) / 2 * xi
            Ax, Ay = A_phys(mx, my)
            return (Ax * (x1 - x0) + Ay * (y1 - y0)) / (Bc2 * xi)
        circ = link(ax, ay, bx, by) + link(bx, by, cx, cy) + link(cx, cy, ax, ay)
        area_phys = ((bx - ax) * (cy - ay) - (by - ay) * (cx - ax)) / 2 * xi * xi
        check("C08.flux_per_triangle", sym.eq(circ * phi0, 2 * pi * B * area_phys))
        # two different recentrings differ by a constant vector = gradient of a linear gauge function (C04.recentre_is_gauge)
        xc2, yc2 = SR(R("xc2")), SR(R("yc2"))
        x, y = SR(R("x")), SR(R("y"))
        d0 = (-(B * (y - yc)) / 2 - (-(B * (y - yc2)) / 2), (B * (x - xc)) / 2 - (B * (x - xc2)) / 2)
        check("C04.recentre_is_gauge.difference_is_a_constant_vector", z3.And(sym.eq(d0[0], B * (yc - yc2) / 2), sym.eq(d0[1], B * (xc2 - xc) / 2)))
    obls, n = explore(body)
    return dict(obls=obls, paths=n, sources=[], consistent=sym.consistent())



def run_device_scales(mutate=None):
    """Device.tau0 / V0 / kappa / Lambda / conductivity on the pint model with a SYMBOLIC length-unit factor: the time and voltage scales a user multiplies
    the dimensionless results with are tau0 = mu0 sigma lambda^2 in seconds and V0 = xi (K0 / d) / sigma in volts, stated in SI quantities of the film only
    (sigma_SI = sigma_num / ell S/m, lambda_SI = lambda_num ell, ...): the same physical film described in another length unit has the same scales.  An
    explicit conductivity argument (any units) takes precedence over the layer's; without any conductivity both refuse."""
    from pyvc.models import pintmodel
    LS, LD = ic.load(mutate)
    Device = LD["Device"]

    def body():
        R = z3.Real
        ureg = pintmodel.make_registry()
        ell = ureg.user_unit("LEN", pintmodel.LENGTH, "ell")
        ell2 = ureg.user_unit("LEN2", pintmodel.LENGTH, "ell_other")
        LD.ns["ureg"] = ureg
        xi, lam, d, sg = SR(R("xi_num")), SR(R("lambda_num")), SR(R("thickness_num")), SR(R("sigma_num"))
        assume(xi > 0, lam > 0, d > 0, sg > 0)
        layer = type("Layer", (), {})()
        layer.coherence_length, layer.london_lambda, layer.thickness = xi, lam, d
        given = bool(SB(z3.Bool("layer_has_a_conductivity")))
        layer.conductivity = sg if given else None
        dev = Device.__new__(Device)
        dev.layer, dev._length_units, dev.mesh, dev.probe_points, dev.name = layer, "LEN", None, None, "d"
        mu0, phi0, pi = ureg.mu0, ureg.phi0, SR(math.pi)
        xi_si, lam_si, d_si = xi * ell, lam * ell, d * ell
        K0_si = 4 * xi_si * (phi0 / (2 * pi * xi_si * xi_si)) / (mu0 * (lam_si * lam_si / d_si))

        def si(q):
            return q.to_base_units().magnitude
        check("C08.scales.kappa_is_lambda_over_xi", sym.eq(dev.kappa, lam / xi))
        L_ = dev.Lambda
        check("C08.scales.Lambda_is_lambda_squared_over_thickness_in_SI", z3.And(sym.eq(si(L_), lam_si * lam_si / d_si), z3.BoolVal(L_.dims == pintmodel.LENGTH)))
        arg = bool(SB(z3.Bool("conductivity_passed_explicitly")))
        sg2 = SR(R("sigma_arg_num"))
        assume(sg2 > 0)
        kw = dict(conductivity=sg2 * ureg("siemens / LEN2")) if arg else {}
        sigma_si = (sg2 / ell2) if arg else (sg / ell)
        for nm, unit_dims in (("tau0", pintmodel._d(T=1)), ("V0", pintmodel._d(L=2, M=1, T=-3, I=-1))):
            try:
                q = getattr(dev, nm)(**kw)
            except ValueError:
                check(f"C08.scales.{nm}.refused_only_without_any_conductivity", z3.BoolVal(not given and not arg))
                continue
            check(f"C08.scales.{nm}.answered_only_with_a_conductivity", z3.BoolVal(given or arg))
            want = mu0 * sigma_si * lam_si * lam_si if nm == "tau0" else xi_si * (K0_si / d_si) / sigma_si
            check(f"C08.scales.{nm}.is_the_documented_scale_of_the_physical_film_in_SI", sym.eq(si(q), want))
            check(f"C08.scales.{nm}.is_returned_in_{'seconds' if nm == 'tau0' else 'volts'}", z3.And(z3.BoolVal(q.dims == unit_dims), sym.eq(q.scale, 1), sym.eq(q.magnitude, want)))
        if given:
            c_ = dev.conductivity
            check("C08.scales.conductivity_is_the_layers_number_in_siemens_per_length_unit", z3.And(sym.eq(si(c_), sg / ell), z3.BoolVal(c_.dims == pintmodel._d(L=-3, M=-1, T=3, I=2))))
        else:
            check("C08.scales.conductivity_is_the_layers_number_in_siemens_per_length_unit", z3.BoolVal(dev.conductivity is None))
    obls, n = explore(body)
    return dict(obls=obls, paths=n, sources=[LD.info()], consistent=sym.consistent())


def native_scales():
    """real pint: one physical film stated in um / nm / mm has the same tau0, V0, kappa, Lambda; values against a direct SI evaluation"""
    import numpy as np
    import tdgl
    from tdgl.geometry import box
    bad, n = [], 0
    mu0 = 4e-7 * np.pi * (1 + 5.5e-10)      # CODATA 2018 value to 1e-9 relative
    xi_m, lam_m, d_m, sigma = 0.3e-6, 1.2e-6, 0.05e-6, 2.5e6          # metres, S/m
    ref = None
    for unit, f in (("um", 1e-6), ("nm", 1e-9), ("mm", 1e-3)):
        layer = tdgl.Layer(coherence_length=xi_m / f, london_lambda=lam_m / f, thickness=d_m / f, conductivity=sigma * f)
        dev = tdgl.Device("d", layer=layer, film=tdgl.Polygon("film", points=box(4 * xi_m / f, 2 * xi_m / f)), length_units=unit)
        got = dict(tau0=dev.tau0().to("s").magnitude, V0=dev.V0().to("V").magnitude, kappa=float(dev.kappa), Lambda=dev.Lambda.to("m").magnitude,
                   tau0_arg=dev.tau0(conductivity=tdgl.ureg("5e6 S/m")).to("s").magnitude)
        n += 1
        Bc2 = 2.067833848e-15 / (2 * np.pi * xi_m ** 2)
        K0 = 4 * xi_m * Bc2 / (mu0 * lam_m ** 2 / d_m)
        want = dict(tau0=mu0 * sigma * lam_m ** 2, V0=xi_m * (K0 / d_m) / sigma, kappa=lam_m / xi_m, Lambda=lam_m ** 2 / d_m, tau0_arg=mu0 * 5e6 * lam_m ** 2)
        for k, v in want.items():
            if abs(got[k] - v) > 1e-6 * abs(v):
                bad.append(dict(what=f"Device.{k} of a film stated in {unit} is not the documented scale of the physical film", got=float(got[k]), expected=float(v), length_units=unit))
        if ref is None:
            ref = got
        else:
            for k in got:
                if abs(got[k] - ref[k]) > 1e-9 * abs(ref[k]):
                    bad.append(dict(what=f"Device.{k} depends on the length unit the film is stated in", um=float(ref[k]), other=float(got[k]), length_units=unit))
    layer = tdgl.Layer(coherence_length=0.3, london_lambda=1.2, thickness=0.05)
    dev = tdgl.Device("d", layer=layer, film=tdgl.Polygon("film", points=box(1, 1)), length_units="um")
    for nm in ("tau0", "V0"):
        n += 1
        try:
            getattr(dev, nm)()
            bad.append(dict(what=f"Device.{nm}() answered for a film without a conductivity"))
        except ValueError:
            pass
    return bad, n


def native_units_snapshot():
    """history: ONE options object serves a run stated in (mT, uA) and is then edited for a run stated in (uT, nA).  What the FIRST solution reports
    (its units, its applied and total vector potential in SI) is the same before and after the edit and the second run."""
    import logging
    import os
    import tempfile
    import numpy as np
    os.environ.setdefault("TQDM_DISABLE", "1")
    logging.disable(logging.CRITICAL)
    import tdgl
    from tdgl.geometry import box
    bad, n = [], 0
    layer = tdgl.Layer(coherence_length=0.5, london_lambda=2, thickness=0.1, gamma=1)
    dev = tdgl.Device("d", layer=layer, film=tdgl.Polygon("film", points=box(3, 2)), length_units="um")
    dev.make_mesh(max_edge_length=0.6, smooth=3)
    P = np.array([[0.3, 0.2, 1.0], [-0.8, 0.5, 1.5], [1.0, -0.6, 0.7]])
    with tempfile.TemporaryDirectory() as td:
        o = tdgl.SolverOptions(solve_time=0.3, output_file=os.path.join(td, "a.h5"), save_every=50, field_units="mT", current_units="uA", progress_interval=0)
        s1 = tdgl.solve(dev, o, applied_vector_potential=0.4)

        def report(sol):
            parts = sol.vector_potential_at_position(P, units="tesla * meter", with_units=False, return_sum=False)
            return dict(field_units=str(sol.field_units), current_units=str(sol.current_units), applied=np.asarray(parts["applied"]).copy(),
                        currents=np.asarray(parts["supercurrent_density"]).copy(), K=sol.current_density.to("A / m").magnitude.copy())
        before = report(s1)
        o.field_units, o.current_units, o.output_file = "uT", "nA", os.path.join(td, "b.h5")
        s2 = tdgl.solve(dev, o, applied_vector_potential=400.0)
        after = report(s1)
        second = report(s2)
        n += 3
        for k in before:
            same = (before[k] == after[k]) if isinstance(before[k], str) else np.allclose(before[k], after[k], rtol=1e-9, atol=1e-30)
            if not same:
                bad.append(dict(what=f"a Solution's `{k}` changes when the options object it was created with is edited for another run (units are part of the problem as it was stated)",
                                before=str(before[k])[:80], after=str(after[k])[:80]))
        for k in ("applied", "currents", "K"):
            if not np.allclose(before[k], second[k], rtol=1e-6, atol=1e-12 * np.abs(before[k]).max()):
                bad.append(dict(what=f"the same physical problem stated in (uT, nA) instead of (mT, uA) reports another `{k}` in SI", max_rel=float(np.abs(before[k] - second[k]).max() / np.abs(before[k]).max())))
    logging.disable(logging.NOTSET)
    return bad, n


def _bounded_quick():
    from checks import physics_native as pn
    b1, n1 = pn.units_cases(0, reduced=True)
    b2, n2 = pn.history_cases(0)
    b3, n3 = native_scales()
    b4, n4 = native_units_snapshot()
    return b1 + b2 + b3 + b4, n1 + n2 + n3 + n4


def units():
    return [Unit("TDGLSolver.__init__", "tdgl.solver.solver:TDGLSolver.__init__ + tdgl.device.device:Device.Bc2/A0/K0", lambda m=None: ic.run_init(m, prefixes=("C08.",)), props=["C08"], timeout=900),
            Unit("Solution.field_at_position[call contract]", "tdgl.solution.solution:Solution.field_at_position",
                 lambda m=None: __import__("checks.c20", fromlist=["x"]).run_field_at_position(m, prefixes=("C08.",)), props=["C08"], timeout=300),
            Unit("Solution.vector_potential_at_position", "tdgl.solution.solution:Solution.vector_potential_at_position",
                 lambda m=None: __import__("checks.solution_common", fromlist=["x"]).run_vector_potential(m, prefixes=("C08.",)), props=["C08", "C20"], timeout=900),
            Unit("Solution.load_tdgl_data[current density]", "tdgl.solution.solution:Solution.load_tdgl_data / current_density + tdgl.device.device:Device.K0",
                 lambda m=None: __import__("checks.solution_common", fromlist=["x"]).run_current_density(m, prefixes=("C08.",)), props=["C08", "C20"], timeout=300),
            Unit("uniform_Bz_vector_potential / ConstantField", "tdgl.em:uniform_Bz_vector_potential + tdgl.sources.constant:constant_field_vector_potential",
                 lambda m=None: __import__("checks.field_common", fromlist=["x"]).run_uniform_field(m, prefixes=("C08.", "C04.")), props=["C08", "C04"], timeout=300),
            Unit("Device.rotate / scale / translate / copy [units kept]", "tdgl.device.device:Device.rotate, Device.scale, Device.translate, Device.copy",
                 lambda m=None: __import__("checks.c18", fromlist=["x"]).run_device_transforms(m, prefixes=("C08.",)), props=["C08", "C18"], timeout=300),
            Unit("Device.make_mesh", "tdgl.device.device:Device.make_mesh / _create_dimensionless_mesh / points / edge_lengths / areas",
                 lambda m=None: __import__("checks.mesh_common", fromlist=["x"]).run_make_mesh(m, prefixes=("C08.",)), props=["C08", "C07"], timeout=300),
            Unit("Device.tau0 / V0 / kappa / Lambda", "tdgl.device.device:Device.tau0, Device.V0, Device.kappa, Device.Lambda, Device.conductivity", run_device_scales, props=["C08"], timeout=300),
            Unit("flux per triangle", "lemma over the formula of tdgl.em:uniform_Bz_vector_potential", run_flux, props=["C08", "C04"], timeout=300),
            _h.bounded_unit("physical outputs across unit systems [bounded]", "tdgl.solve / Solution (real runs on one shared mesh)", "C08", _bounded_quick, "same_physical_outputs_in_different_unit_systems[um/mm/nm, static and ramped field]", timeout=900)]


def replay_scope(unit, obl):
    """the native replay of this property searches per unit, not per obligation: run it once per unit"""
    return "unit"


def replay(unit, obl):
    import tdgl
    from checks import physics_native as pn
    if unit.startswith("Device.tau0"):
        bad, n = native_scales()
        return dict(confirmed=bool(bad), failing_input=bad[0] if bad else None, n_failing=len(bad), evaluations=n, tdgl_file=tdgl.__file__)
    if unit.startswith("Device.rotate"):
        from checks import c18
        bad, n = c18.native(0, 3)
        bad = [b for b in bad if "length units" in b.get("what", "")]
        if bad:
            return dict(confirmed=True, failing_input=bad[0], n_failing=len(bad), evaluations=n, tdgl_file=tdgl.__file__)
    if unit.startswith("uniform_Bz_vector_potential"):
        from checks import field_common
        bad, n = field_common.native(0)
        if bad:
            return dict(confirmed=True, failing_input=bad[0], n_failing=len(bad), evaluations=n, tdgl_file=tdgl.__file__)
    if unit.startswith("Solution."):
        bad, n = native_units_snapshot()
        if bad:
            return dict(confirmed=True, failing_input=bad[0], n_failing=len(bad), evaluations=n, tdgl_file=tdgl.__file__)
    bad, n = pn.units_cases(0)
    b2, n2 = pn.conservation_cases(0)
    bad += [x for x in b2 if "requested" in x["what"]]
    if bad:
        return dict(confirmed=True, failing_input=bad[0], n_failing=len(bad), evaluations=n + n2, tdgl_file=tdgl.__file__,
                    note="paired real runs of one physical device in different unit systems on one shared dimensionless mesh")
    return dict(confirmed=False, evaluations=n + n2, tdgl_file=tdgl.__file__)


S_ = "tdgl.solver.solver"
D_ = "tdgl.device.device"
MUTANTS = [
    dict(name="current density: K0 left in SI units", edits=[("tdgl.solution.solution", "K0 = self.device.K0.to(f\"{self.current_units} / {self.device.length_units}\")", "K0 = self.device.K0")], units=["Solution.load_tdgl_data[current density]"]),
    dict(name="vector potential: applied part not converted to the requested units", edits=[("tdgl.solution.solution", "applied = (applied * ureg(f\"{self.field_units} * {device.length_units}\")).to(\n            units\n        )", "applied = (applied * ureg(f\"{self.field_units} * {device.length_units}\"))")], units=["Solution.vector_potential_at_position"]),
    dict(name="J_scale without to_base_units", edits=[(S_, "J_scale = 4 * ((ureg(current_units) / length_units) / K0).to_base_units()", "J_scale = 4 * (ureg(current_units) / length_units) / K0")]),
    dict(name="screening scale in 1/um", edits=[(S_, "A_scale = (ureg(\"mu_0\") / (4 * np.pi) * K0 / A0).to(1 / length_units)", "A_scale = (ureg(\"mu_0\") / (4 * np.pi) * K0 / A0).to_base_units()")]),
    dict(name="A_scale misses the length unit in the numerator", edits=[(S_, "(ureg(field_units) * length_units / (Bc2 * xi * length_units))", "(ureg(field_units) * ureg(\"m\") / (Bc2 * xi * length_units))")]),
    dict(name="field_at_position forgets the device length units", edits=[("tdgl.solution.solution", "                length_units=device.length_units,\n                current_units=self.current_units,\n                vector=vector,", "                current_units=self.current_units,\n                vector=vector,")]),
    dict(name="tau0 with Lambda instead of lambda^2", units=["Device.tau0 / V0 / kappa / Lambda"], edits=[(D_, "        return (ureg(\"mu_0\") * conductivity * self.london_lambda**2).to(\"seconds\")", "        return (ureg(\"mu_0\") * conductivity * self.Lambda * self.london_lambda).to(\"seconds\")")], expect="killed"),
    dict(name="V0 without the film thickness", units=["Device.tau0 / V0 / kappa / Lambda"], edits=[(D_, "        J0 = self.K0 / self.thickness", "        J0 = self.K0 / ureg(self.length_units)")]),
    dict(name="conductivity per metre whatever the length unit", units=["Device.tau0 / V0 / kappa / Lambda"], edits=[(D_, "        return self.layer.conductivity * ureg(f\"siemens / {self.length_units}\")", "        return self.layer.conductivity * ureg(\"siemens / m\")")]),
    dict(name="explicit conductivity ignored when the layer has one", units=["Device.tau0 / V0 / kappa / Lambda"], edits=[(D_, "        if conductivity is None:\n            conductivity = self.conductivity\n        if conductivity is None:\n            raise ValueError(\n                \"The time scale tau0", "        if self.conductivity is not None:\n            conductivity = self.conductivity\n        if conductivity is None:\n            raise ValueError(\n                \"The time scale tau0")]),
    dict(name="Bc2 with xi instead of xi^2", edits=[(D_, "(2 * np.pi * self.coherence_length**2)", "(2 * np.pi * self.coherence_length)")]),
    dict(name="K0 misses the factor 4", edits=[(D_, "K0 = 4 * self.coherence_length * self.Bc2 / (ureg(\"mu_0\") * self.Lambda)", "K0 = self.coherence_length * self.Bc2 / (ureg(\"mu_0\") * self.Lambda)")]),
] + __import__("checks.field_common", fromlist=["x"]).MUTANTS + [
    dict(name="kernel areas use xi instead of xi^2", edits=[(S_, "self.areas = A_scale.magnitude * mesh.areas * xi**2", "self.areas = A_scale.magnitude * mesh.areas * xi")]),
]


def thorough(seed=0):
    from pyvc import harness
    from checks import physics_native as pn
    summary, broken = harness.run_mutants("checks.c08", units(), MUTANTS)
    bad, n = pn.units_cases(seed)
    bnd = dict(kind="bounded", evaluations=n, failing=len(bad), samples=bad[:3], bound="7 unit systems (um/nm/mm, mT/uT/T, uA/nA/mA, screening on/off) on one shared dimensionless mesh")
    if bad:
        broken.append(f"paired native runs depend on the unit system: {bad[0]}")
    return dict(coverage=dict(mutants=summary, bounded=bnd, mutants_killed=sum(1 for m in summary if m["verdict"] in ("killed", "not-proved") and m["expect"] == "killed"),
                              mutants_total=sum(1 for m in summary if m["expect"] == "killed")), broken=broken)
