"""native replay / bounded stand-in of C01"""
def replay(unit, obl):
    import tdgl
    from checks import physics_native as pn, c01
    bad, n = pn.conservation_cases(0)
    b2, n2 = c01.accept_search(0)
    bad += [dict(what="balanced terminal currents rejected", **x) for x in b2]
    if bad:
        name = (obl or {}).get("name", "")
        kw = ("rejected",) if "accept" in name else (("requested",) if "requested" in name or "J_scale" in name or "density" in name else ("net current",))
        pick = next((x for x in bad if any(w in x["what"] for w in kw)), bad[0])
        return dict(confirmed=True, failing_input=pick, n_failing=len(bad), evaluations=n + n2, tdgl_file=tdgl.__file__)
    return dict(confirmed=False, evaluations=n + n2, tdgl_file=tdgl.__file__)


def bounded(seed=0):
    from checks import physics_native as pn, c01
    bad, n = pn.conservation_cases(seed)
    b2, n2 = c01.accept_search(seed)
    out = dict(kind="bounded", evaluations=n + n2, failing=len(bad) + len(b2), samples=(bad + b2)[:3],
               bound="5 real runs (2/3 terminals, hole, screening, uA/mA/nA) every frame >= 1; 10031 balanced current assignments x unit factors")
    if bad or b2:
        out["broken"] = [f"native run violates C01: {(bad + b2)[0]}"]
    return out
