"""shared by C03 / C04 / C06 / C10 / C17 / C01: the real tdgl/finite_volume/operators.py on a symbolic mesh, and the
stencil specifications written from docs/background.rst (eqs. gradient, divergence, laplacian, grad-psi, laplacian-psi).

Stencil spec of a matrix = list of blocks (n, guard, row, col, val), one index k per edge (or boundary edge, or
pinned site).  U_e = exp(-i A_e . d_e) is the link variable of edge e=(i,j), conj(U_e) the one of (j,i).
"""
import z3

from pyvc import sym, instrument, vc as vcm
from pyvc.arr import SymArray
from pyvc.meshmodel import SymMesh, compare_blocks
from pyvc.models.npmodel import NP, BUILTINS
from pyvc.models.spmodel import SP
from pyvc.sym import SB, SC, SI, SR, check, cis

MOD = "tdgl.finite_volume.operators"


def load_ops(mutate=None):
    mut = [(o, n) for (m, o, n) in (mutate or []) if m == MOD]
    rebind = {"np": NP, "sp": SP, "cupy": None}
    rebind.update(BUILTINS)
    return instrument.load(MOD, rebind=rebind, mutate=mut, vc=vcm.VC())


# ----------------------------------------------------------------------------- spec stencils (from the docs)


def U_spec(M, A, k):
    """link variable of edge k: exp(-i A_k . d_k)"""
    th = A.at(k, SI(0)) * SR(M.dir(k.e, 0)) + A.at(k, SI(1)) * SR(M.dir(k.e, 1))
    return cis(-th)


def one(M, A, k):
    return SC(1, 0)


def divergence_spec(M):
    """(div F)_i = (1/a_i) sum_j F_ij s_ij  with F stored once per edge (i<j): +s/a_i at row i, -s/a_j at row j"""
    s = lambda k: M.s(k)
    return [(M.E, None, lambda k: SI(M.i(k.e)), lambda k: k, lambda k: s(k) / M.a(M.i(k.e))),
            (M.E, None, lambda k: SI(M.j(k.e)), lambda k: k, lambda k: -s(k) / M.a(M.j(k.e)))]


def gradient_spec(M, A=None):
    """(grad g)_ij = (U_ij g_j - g_i)/e_ij  (U = 1 for the scalar gradient)"""
    U = (lambda k: U_spec(M, A, k)) if A is not None else (lambda k: SR(1))
    return [(M.E, None, lambda k: k, lambda k: SI(M.j(k.e)), lambda k: U(k) * (SR(1) / M.l(k))),
            (M.E, None, lambda k: k, lambda k: SI(M.i(k.e)), lambda k: -(SR(1) / M.l(k)))]


def laplacian_spec(M, A=None, pinned=False):
    """(lap g)_i = (1/a_i) sum_j (U_ij g_j - g_i) s_ij/e_ij; rows of pinned sites are the identity row"""
    U = (lambda k: U_spec(M, A, k)) if A is not None else (lambda k: SR(1))
    W = lambda k: M.s(k) / M.l(k)
    ai = lambda k: M.a(M.i(k.e))
    aj = lambda k: M.a(M.j(k.e))
    free = (lambda site: z3.Not(M.isfixed(site))) if pinned else None
    gi = (lambda k: free(M.i(k.e))) if pinned else None
    gj = (lambda k: free(M.j(k.e))) if pinned else None
    conj = (lambda x: x.conjugate())
    blocks = [(M.E, gi, lambda k: SI(M.i(k.e)), lambda k: SI(M.j(k.e)), lambda k: W(k) * U(k) / ai(k)),
              (M.E, gj, lambda k: SI(M.j(k.e)), lambda k: SI(M.i(k.e)), lambda k: W(k) * conj(U(k)) / aj(k)),
              (M.E, gi, lambda k: SI(M.i(k.e)), lambda k: SI(M.i(k.e)), lambda k: -W(k) / ai(k)),
              (M.E, gj, lambda k: SI(M.j(k.e)), lambda k: SI(M.j(k.e)), lambda k: -W(k) / aj(k))]
    if pinned:
        blocks.append((M.F, None, lambda k: SI(M.fx(k.e)), lambda k: SI(M.fx(k.e)), lambda k: SR(1)))
    return blocks


def neumann_spec(M):
    """boundary-flux operator: half of each boundary edge (length e_b) to each of its two end cells"""
    eb = lambda k: M.bidx(k.e)
    half = lambda k, site: M.l(eb(k)) / (2 * M.a(site))
    return [(M.Bn, None, lambda k: SI(M.i(eb(k))), lambda k: k, lambda k: half(k, M.i(eb(k)))),
            (M.Bn, None, lambda k: SI(M.j(eb(k))), lambda k: k, lambda k: half(k, M.j(eb(k))))]


# ----------------------------------------------------------------------------- helpers


def setup_mesh(with_fixed=True):
    M = SymMesh(with_fixed=with_fixed)
    sym.ctx().pc += M.base_axioms()
    return M


def edge_ax(M):
    from pyvc.arr import univ_instances
    return lambda idxs: (univ_instances(idxs) + M.edge_axioms(idxs) + M.boundary_axioms(idxs) + _bidx_edges(M, idxs) + M.fixed_axioms(idxs)
                         + M.member_axioms([t for k in idxs for t in (M.i(k.e), M.j(k.e))]))


def _bidx_edges(M, idxs):
    """edge axioms for boundary-edge terms bidx(k)"""
    out = []
    for k in idxs:
        b = SI(M.bidx(k.e))
        out += M.edge_axioms([b])
    return out


def make_operators(L, M, fix_psi=True):
    ops = L["MeshOperators"](M.mesh, None, use_cupy=False, fixed_sites=M.fixed_sites, fix_psi=fix_psi)
    return ops


def attach_axioms(coo, M):
    coo.mesh_axioms = lambda idxs: M.edge_axioms(idxs)
    return coo
