"""C19 -- ill-posed problems are rejected before anything is written."""
import z3

from pyvc import sym, instrument, vc as vcm
from pyvc.harness import Unit
from pyvc import harness as _h
from pyvc.sym import SB, SI, SR, SC, check, assume, explore
from checks import init_common as ic, c15

PROPERTY = "C19"
LEVEL = "proof"
TRUSTED = ["pint / numpy models; MeshOperators replaced by a recording stub", "shapely validity of polygons (bounded native run only)",
           "user callbacks (vector potential, epsilon, currents) have no file effects"]
ASSUMPTIONS = ["time-dependent currents are validated at sampled times: a callable unbalanced only on part of [0, solve_time] can pass - no contract on this code can exclude it; "
               "the symbolic obligation covers currents unbalanced at every time (constant imbalance), the sampled times being arbitrary",
               "'writes nothing': the constructor performs no file-creating call (syntactic effect check over the constructor and the validators) and every rejection in solve() "
               "is raised before DataHandler is constructed",
               "a current imbalance is rejected from one part in 1e6 of the largest current upwards (pins the tolerance of the C01 fix from below); exactly-balanced is accepted"]
EXPLANATION = "raise-before-first-effect obligations on the real constructor (symbolic run), on SolverOptions.validate (every branch) and on solve() paths"
O_ = "tdgl.solver.options"


def run_validate(mutate=None):
    """SolverOptions.validate with symbolic fields: raises iff an inconsistency holds (each branch)"""
    mut = [(o, n) for (m, o, n) in (mutate or []) if m == O_]
    L = instrument.load(O_, mutate=mut, vc=vcm.VC())

    def body():
        R = z3.Real
        Opt, Err = L["SolverOptions"], L["SolverOptionsError"]
        o = Opt.__new__(Opt)
        o.dt_init, o.dt_max = SR(R("dt_init")), SR(R("dt_max"))
        tp_none = bool(SB(z3.Bool("terminal_psi_is_none")))
        tp = SC(SR(R("tp_re")), SR(R("tp_im")))
        o.terminal_psi = None if tp_none else tp
        o.adaptive_time_step_multiplier = SR(R("mult"))
        o.screening_step_drag, o.screening_step_size, o.screening_tolerance = SR(R("drag")), SR(R("alpha")), SR(R("tol"))
        o.gpu = False
        o.sparse_solver = L["SparseSolver"].SUPERLU
        # every switch that validate() may look at is an instance attribute with both values (class-level defaults would hide a branch)
        o.adaptive = bool(SB(z3.Bool("adaptive")))
        o.include_screening = bool(SB(z3.Bool("include_screening")))
        bad = z3.Or(o.dt_init.e > o.dt_max.e, z3.Not(z3.And(o.adaptive_time_step_multiplier.e > 0, o.adaptive_time_step_multiplier.e < 1)),
                    z3.Not(z3.And(o.screening_step_drag.e > 0, o.screening_step_drag.e <= 1)), o.screening_step_size.e <= 0, o.screening_tolerance.e <= 0)
        if not tp_none:
            bad = z3.Or(bad, tp.abs2().e > 1)
        before = dict(vars(o))
        try:
            o.validate()
        except Err:
            check("C19.options.rejects_only_inconsistent", bad, extra=sym.congruence_axioms())
            return
        check("C19.options.accepts_only_consistent", z3.Not(bad), extra=sym.congruence_axioms())
        # validation decides, it does not rewrite what the user asked for (the same object is reused for later runs)
        changed = sorted(k_ for k_ in before if vars(o).get(k_) is not before[k_])
        check("C19.options.validation_leaves_the_options_as_given", z3.BoolVal(not changed), note=str(changed))
        # an options object is validated again by every solve: the decision depends on the values it has NOW, not on an earlier success
        o.dt_init, o.dt_max = SR(R("dt_init_2")), SR(R("dt_max_2"))
        tp2 = SC(SR(R("tp2_re")), SR(R("tp2_im")))
        if not tp_none:
            o.terminal_psi = tp2
        o.adaptive_time_step_multiplier = SR(R("mult_2"))
        o.screening_step_drag, o.screening_step_size, o.screening_tolerance = SR(R("drag_2")), SR(R("alpha_2")), SR(R("tol_2"))
        bad2 = z3.Or(o.dt_init.e > o.dt_max.e, z3.Not(z3.And(o.adaptive_time_step_multiplier.e > 0, o.adaptive_time_step_multiplier.e < 1)),
                     z3.Not(z3.And(o.screening_step_drag.e > 0, o.screening_step_drag.e <= 1)), o.screening_step_size.e <= 0, o.screening_tolerance.e <= 0)
        if not tp_none:
            bad2 = z3.Or(bad2, tp2.abs2().e > 1)
        try:
            o.validate()
        except Err:
            check("C19.options.revalidation_rejects_only_inconsistent", bad2, extra=sym.congruence_axioms())
            return
        check("C19.options.revalidation_accepts_only_consistent", z3.Not(bad2), extra=sym.congruence_axioms())
    obls, n = explore(body, safety=False)
    return dict(obls=obls, paths=n, sources=[L.info()], consistent=sym.consistent())


def run_device_eq(mutate=None):
    """the seed check relies on Device.__eq__: two devices are equal iff name, layer, film, every hole, every terminal (as named geometry),
    probe points and length units agree - in particular a moved hole or a reshaped terminal with the same name makes them unequal"""
    D_ = "tdgl.device.device"
    mut = [(o, n) for (m, o, n) in (mutate or []) if m == D_]
    L = instrument.load(D_, mutate=mut, vc=vcm.VC())

    def body():
        import numpy as np
        Device = L["Device"]

        class Poly:
            def __init__(self, name, geom):
                self.name, self.geom = name, geom

            def __eq__(self, o):
                return isinstance(o, Poly) and self.name == o.name and self.geom == o.geom

            def __lt__(self, o):
                return (self.name, self.geom) < (o.name, o.geom)
            __hash__ = None

        def mk(**kw):
            d = Device.__new__(Device)
            base = dict(name="d", layer="LAYER", film=Poly("film", 0), holes=[Poly("h1", 1), Poly("h2", 2)], terminals=(Poly("src", 3), Poly("drn", 4)),
                        probe_points=np.array([[0.0, 0.0], [1.0, 0.0]]), _length_units="um")
            base.update(kw)
            for k, v in base.items():
                setattr(d, k, v)
            return d
        ref = mk()
        check("C19.device_eq.equal_definitions_are_equal", z3.BoolVal((ref == mk()) is True))
        check("C19.device_eq.order_of_holes_and_terminals_irrelevant", z3.BoolVal((ref == mk(holes=[Poly("h2", 2), Poly("h1", 1)], terminals=(Poly("drn", 4), Poly("src", 3)))) is True))
        variants = dict(name=mk(name="e"), layer=mk(layer="OTHER"), film=mk(film=Poly("film", 9)), moved_hole_same_name=mk(holes=[Poly("h1", 1), Poly("h2", 7)]),
                        reshaped_terminal_same_name=mk(terminals=(Poly("src", 3), Poly("drn", 8))), missing_hole=mk(holes=[Poly("h1", 1)]),
                        renamed_terminal=mk(terminals=(Poly("src", 3), Poly("out", 4))), probe_points=mk(probe_points=np.array([[0.0, 0.0], [2.0, 0.0]])),
                        no_probe_points=mk(probe_points=None), length_units=mk(_length_units="nm"))
        for tag, other in variants.items():
            try:
                r = (ref == other)
            except Exception as e:  # noqa
                r = f"{type(e).__name__}"
            check(f"C19.device_eq.differs_in_{tag}", z3.BoolVal(r is False), note=str(r))
    obls, n = explore(body)
    return dict(obls=obls, paths=n, sources=[L.info()], consistent=True)


def run_solve_paths(mutate=None):
    r = c15.run_solve_paths(mutate)
    r["obls"] = [o for o in r["obls"] if o.name.startswith("C19.")]
    return r


def run_device_init(mutate=None):
    """invalid device definitions are rejected by the REAL Device.__init__ (polygons stubbed): unnamed or duplicate terminals, duplicate hole
    names, an invalid film or hole polygon, probe points of the wrong shape or outside the film; a valid definition is accepted"""
    D_ = "tdgl.device.device"
    mut = [(o, n) for (m, o, n) in (mutate or []) if m == D_]
    L = instrument.load(D_, mutate=mut, vc=vcm.VC())

    def body():
        import numpy as np
        Device = L["Device"]

        class Poly:
            def __init__(self, name, valid=True, inside=True):
                self.name, self.is_valid, self.inside, self.mesh = name, valid, inside, True

            def contains_points(self, pts, index=False, radius=0):
                return np.full(len(np.atleast_2d(pts)), self.inside)

            def __repr__(self):
                return f"Poly({self.name!r})"
        layer = object()
        ok_kw = lambda: dict(layer=layer, film=Poly("film"), holes=[Poly("h1", inside=False), Poly("h2", inside=False)], terminals=[Poly("src"), Poly("drn")],
                             probe_points=[(0.0, 0.0), (1.0, 0.0)])
        cases = {
            "valid definition": (ok_kw(), False),
            "no holes, terminals or probes": (dict(layer=layer, film=Poly("film")), False),
            "unnamed terminal": (dict(ok_kw(), terminals=[Poly("src"), Poly(None)]), True),
            "only terminal unnamed": (dict(ok_kw(), terminals=[Poly(None)]), True),
            "duplicate terminal names": (dict(ok_kw(), terminals=[Poly("src"), Poly("src")]), True),
            "duplicate hole names": (dict(ok_kw(), holes=[Poly("h", inside=False), Poly("h", inside=False)]), True),
            "probe point inside a hole": (dict(ok_kw(), holes=[Poly("h1", inside=True)]), True),
            "invalid film polygon": (dict(ok_kw(), film=Poly("film", valid=False)), True),
            "invalid hole polygon": (dict(ok_kw(), holes=[Poly("h1", inside=False), Poly("h2", valid=False, inside=False)]), True),
            "probe point outside the film": (dict(ok_kw(), film=Poly("film", inside=False)), True),
            "probe points of the wrong shape": (dict(ok_kw(), probe_points=[(0.0, 0.0, 1.0), (1.0, 0.0, 2.0)]), True),
        }
        for tag, (kw, must_reject) in cases.items():
            try:
                d = Device("dev", **kw)
                rejected = False
            except ValueError:
                rejected = True
            check(f"C19.device_definition.{'rejected' if must_reject else 'accepted'}[{tag}]", z3.BoolVal(rejected is must_reject))
            if not must_reject and not rejected:
                check(f"C19.device_definition.terminals_are_not_meshed[{tag}]", z3.BoolVal(all(t.mesh is False for t in d.terminals)))
    obls, n = explore(body)
    return dict(obls=obls, paths=n, sources=[L.info()], consistent=True)


SOL_ = "tdgl.solution.solution"


def run_solution_snapshot(mutate=None):
    """the seed-device guard of TDGLSolver.solve compares seed_solution.device with the device being simulated; that only rejects a seed
    from a device that was modified in place afterwards if the Solution keeps its own snapshot.  Contract of the REAL Solution.__init__
    (device stubbed, data loading stubbed): the recorded device is a copy made at construction that shares the mesh."""
    mut = [(o, n) for (m, o, n) in (mutate or []) if m == SOL_]
    L = instrument.load(SOL_, mutate=mut, vc=vcm.VC())
    Sol = L["Solution"]

    def body():
        class Dev:
            def __init__(self, origin=None):
                self.origin, self.mesh = origin, None

            def copy(self, *a, **k):
                return Dev(origin=self)
        d = Dev()
        d.mesh = "MESH"
        real_load = Sol.load_tdgl_data
        Sol.load_tdgl_data = lambda self_, solve_step=-1: None
        try:
            opts = type("O", (), {"field_units": "mT", "current_units": "uA"})()
            s_ = Sol(device=d, options=opts, path="/x/o.h5", applied_vector_potential="A", terminal_currents=None, disorder_epsilon=1.0, total_seconds=0.0)
        finally:
            Sol.load_tdgl_data = real_load
        sym.check_terms("C19.seed_guard.solution_records_a_snapshot_of_the_device", s_.device is not d and getattr(s_.device, "origin", None) is d,
                        note="solution.device is the caller's device object" if s_.device is d else "")
        sym.check_terms("C19.seed_guard.snapshot_shares_the_mesh", getattr(s_.device, "mesh", None) == "MESH")
    obls, n = explore(body)
    return dict(obls=obls, paths=n, sources=[L.info()], consistent=True)



def _bounded_quick():
    from checks import physics_native as pn
    return pn.reject_cases(0)


def units():
    return [Unit("TDGLSolver.__init__", "tdgl.solver.solver:TDGLSolver.__init__ / validate_terminal_currents", lambda m=None: ic.run_init(m, prefixes=("C19.",)), props=["C19"], timeout=900),
            Unit("SolverOptions.validate", O_ + ":SolverOptions.validate", run_validate, props=["C19"], timeout=300),
            Unit("TDGLSolver.solve[paths]", "tdgl.solver.solver:TDGLSolver.solve", run_solve_paths, props=["C19"], timeout=300),
            Unit("update_mu_boundary[no rejection while stepping]", "tdgl.solver.solver:TDGLSolver.update_mu_boundary",
                 lambda m=None: __import__("checks.c01", fromlist=["x"]).run_density(m, prefixes=("C19.",)), props=["C19"], timeout=600),
            Unit("Device.__eq__", "tdgl.device.device:Device.__eq__", run_device_eq, props=["C19"], timeout=300),
            Unit("Device.__init__[rejections]", "tdgl.device.device:Device.__init__", run_device_init, props=["C19"], timeout=300),
            Unit("Solution.__init__[device snapshot]", SOL_ + ":Solution.__init__", run_solution_snapshot, props=["C19"], timeout=300),
            _h.bounded_unit("ill-posed problems on the real entry points [bounded]", "tdgl.solve / Device / Polygon (real)", "C19", _bounded_quick, "ill_posed_problems_rejected_before_any_output", timeout=900)]


def replay_scope(unit, obl):
    """the native replay of this property searches per unit, not per obligation: run it once per unit"""
    return "unit"


def replay(unit, obl):
    import tdgl
    from checks import physics_native as pn
    bad, n = pn.reject_cases(0)
    if bad:
        return dict(confirmed=True, failing_input=bad[0], n_failing=len(bad), evaluations=n, tdgl_file=tdgl.__file__)
    return dict(confirmed=False, evaluations=n, tdgl_file=tdgl.__file__)


S_ = "tdgl.solver.solver"
MUTANTS = [
    dict(name="currents re-validated at every step", units=["update_mu_boundary[no rejection while stepping]"],
         edits=[(S_, "        currents = self.current_func(time)\n        terminal_current_densities = self.terminal_current_densities", "        currents = self.current_func(time)\n        if sum(currents.values()) != 0:\n            raise ValueError(\"The sum of all terminal currents must be 0\")\n        terminal_current_densities = self.terminal_current_densities")]),
    dict(name="loose tolerance accepts 1e-6 imbalance", edits=[(S_, "if abs(total_current) > 1e-12 * max_current:", "if abs(total_current) > 1e-5 * max_current:")]),
    dict(name="epsilon check uses >=2", edits=[(S_, "if np.any(epsilon > 1):", "if np.any(epsilon > 2):")]),
    dict(name="empty terminal check dropped", edits=[(S_, "            if term_info.length == 0:", "            if False and term_info.length == 0:")]),
    dict(name="seed check moved inside the with block", edits=[(S_, "            if self.seed_solution.device != self.device:\n                raise ValueError(\n                    \"The seed_solution.device must be equal to the device being simulated.\"\n                )\n", ""),
                                                                 (S_, "            data_handler.save_mesh(self.device.mesh)\n", "            data_handler.save_mesh(self.device.mesh)\n            if self.seed_solution is not None and self.seed_solution.device != self.device:\n                raise ValueError(\"seed\")\n")]),
    dict(name="dt_init > dt_max tolerated", edits=[(O_, "        if self.dt_init > self.dt_max:", "        if self.dt_init > 10 * self.dt_max:")]),
    dict(name="operators built before currents are validated (still pure)", expect="killed", edits=[(S_, "        validate_terminal_currents(self.current_func, self.terminal_info, self.options)\n", ""),
        (S_, "        self.operators = operators\n", "        self.operators = operators\n        validate_terminal_currents(self.current_func, self.terminal_info, self.options)\n")]),
]


def thorough(seed=0):
    from pyvc import harness
    from checks import physics_native as pn
    summary, broken = harness.run_mutants("checks.c19", units(), MUTANTS)
    bad, n = pn.reject_cases(seed)
    bnd = dict(kind="bounded", evaluations=n, failing=len(bad), samples=bad[:3], bound="29 ill-posed problems on a real device (imbalances 0.5..1e-6, epsilon, options, shapes, seed mismatch, invalid polygons), directory listing after each")
    if bad:
        broken.append(f"native rejection run fails: {bad[0]}")
    return dict(coverage=dict(mutants=summary, bounded=bnd, mutants_killed=sum(1 for m in summary if m["verdict"] in ("killed", "not-proved") and m["expect"] == "killed"),
                              mutants_total=sum(1 for m in summary if m["expect"] == "killed")), broken=broken)
