#!/bin/sh
# Builds /verif/.venv offline: python 3.12 venv + z3-solver, cvc5, sympy, jsonschema from the wheelhouse,
# plus a .pth onto /venv's site-packages so that `import tdgl` (from /repo) and its deps work.
set -e
cd "$(dirname "$0")"
PY=/root/.pyenv/versions/3.12.1/bin/python
[ -x "$PY" ] || PY=$(readlink -f /venv/bin/python)
if [ ! -x .venv/bin/python ] || ! .venv/bin/python -c "import z3, cvc5, sympy, jsonschema, tdgl" 2>/dev/null; then
  rm -rf .venv
  "$PY" -m venv .venv
  PIP_NO_INDEX=1 .venv/bin/pip install -q --no-index --find-links /opt/veriftools/wheels z3-solver cvc5 sympy jsonschema
  SP=$(.venv/bin/python -c "import sysconfig;print(sysconfig.get_paths()['purelib'])")
  echo "import site; site.addsitedir('/venv/lib/python3.12/site-packages')" > "$SP/_repo_overlay.pth"
fi
.venv/bin/python -c "import z3, cvc5, sympy, jsonschema, tdgl, numpy; print('setup ok: z3', z3.get_version_string(), 'tdgl from', tdgl.__file__)"
