#!/bin/sh
# usage: tools/try_seed.sh <patch.diff> <ID> [extra check args]  -- run a check against a scratch worktree with the patch applied (never /repo)
set -e
WT=${WT:-/tmp/wt/mine}
[ -d $WT ] || git -C /repo worktree add -q --detach $WT HEAD
git -C $WT checkout -q -- . ; git -C $WT checkout -q --detach $(git -C /repo rev-parse HEAD); git -C $WT apply "$1"
shift
cd /verif
PYVC_REPO=$WT ./check "$@" --no-evidence || echo "exit=$?"
git -C $WT checkout -q -- .
