#!/usr/bin/env python3
"""Confirm seeded changes myself, in a scratch worktree (never /repo): demo on the unchanged tree (must exit 0), patch applied, demo again
(must exit non-zero), then the pinned test command of /root/.vp/BASELINE.json (junit) compared id by id with the baseline's stable passes.

usage: tools/confirm_seed.py [--jobs N] [--xdist N] [--scratch DIR] [--no-suite] <ID/k> ...
Writes seeded/<ID>/<k>/confirm.json and merges it into meta.json["confirmed_by_me"]. The worktree and its output are removed afterwards."""
import argparse
import concurrent.futures as cf
import json
import os
import shutil
import subprocess
import sys
import time
import xml.etree.ElementTree as ET

V = os.path.dirname(os.path.dirname(os.path.abspath(__file__)))
PY = "/venv/bin/python"


def sh(*a, **k):
    return subprocess.run(a, capture_output=True, text=True, **k)


def junit_pass_ids(path):
    ok = set()
    for tc in ET.parse(path).getroot().iter("testcase"):
        if not any(ch.tag in ("failure", "error", "skipped") for ch in tc):
            ok.add(f"{tc.get('classname')}::{tc.get('name')}")
    return ok


def confirm(seed, scratch, xdist, suite):
    pid, k = seed.split("/")
    sd = os.path.join(V, "seeded", pid, k)
    wt = os.path.join(scratch, f"{pid}_{k}")
    sh("git", "-C", "/repo", "worktree", "remove", "--force", wt)
    r = sh("git", "-C", "/repo", "worktree", "add", "-q", "--detach", wt, "HEAD")
    res = dict(seed=seed, tree="HEAD " + sh("git", "-C", "/repo", "rev-parse", "--short", "HEAD").stdout.strip())
    try:
        if r.returncode:
            res["error"] = r.stderr
            return res
        dd = os.path.join(wt, "_seed", "1")
        os.makedirs(dd)
        shutil.copy(os.path.join(sd, "demo.py"), dd)
        env = dict(os.environ, TQDM_DISABLE="1", MPLBACKEND="Agg", PYTHONPATH=wt)
        t0 = time.time()
        p = sh(PY, os.path.join(dd, "demo.py"), cwd=wt, env=env, timeout=3600)
        res["demo_unchanged_rc"] = p.returncode
        res["demo_unchanged_tail"] = (p.stdout + p.stderr)[-600:]
        r = sh("git", "-C", wt, "apply", os.path.join(sd, "patch.diff"))
        if r.returncode:
            res["error"] = "patch does not apply: " + r.stderr
            return res
        p = sh(PY, os.path.join(dd, "demo.py"), cwd=wt, env=env, timeout=3600)
        res["demo_changed_rc"] = p.returncode
        res["demo_changed_tail"] = (p.stdout + p.stderr)[-600:]
        res["demo_secs"] = round(time.time() - t0, 1)
        if suite:
            base = json.load(open("/root/.vp/BASELINE.json"))
            jx = os.path.join(wt, "_seed", "junit.xml")
            cmd = [PY, "-m", "pytest", "-ra", "-q", "-p", "no:cacheprovider", "--timeout=3600", "--continue-on-collection-errors", f"--junitxml={jx}"]
            if xdist:
                cmd += ["-n", str(xdist)]
            t0 = time.time()
            p = sh(*cmd, cwd=wt, env=dict(env, PYTHONPATH=wt), timeout=3 * 3600)
            res["suite_secs"] = round(time.time() - t0, 1)
            res["suite_tail"] = p.stdout[-300:]
            ok = junit_pass_ids(jx)
            want = set(base["stable_pass"])
            res["suite_passed"] = len(ok & want)
            res["suite_missing"] = sorted(want - ok)[:20]
            res["suite_ok"] = want <= ok
            # make sure the suite really imported the worktree's tdgl
            res["suite_cmd"] = " ".join(cmd).replace(jx, "<file>") + f"  (cwd=<worktree>, PYTHONPATH=<worktree>)"
    except Exception as e:  # noqa
        res["error"] = repr(e)
    finally:
        sh("git", "-C", "/repo", "worktree", "remove", "--force", wt)
        shutil.rmtree(wt, ignore_errors=True)
    return res


def main():
    ap = argparse.ArgumentParser()
    ap.add_argument("seeds", nargs="+")
    ap.add_argument("--jobs", type=int, default=2)
    ap.add_argument("--xdist", type=int, default=6)
    ap.add_argument("--scratch", default="/tmp/wtc")
    ap.add_argument("--no-suite", action="store_true")
    a = ap.parse_args()
    os.makedirs(a.scratch, exist_ok=True)
    with cf.ThreadPoolExecutor(a.jobs) as ex:
        for res in ex.map(lambda s: confirm(s, a.scratch, a.xdist, not a.no_suite), a.seeds):
            s = res["seed"]
            json.dump(res, open(os.path.join(V, "seeded", s, "confirm.json"), "w"), indent=1)
            mp = os.path.join(V, "seeded", s, "meta.json")
            if os.path.exists(mp):
                m = json.load(open(mp))
                cb = m.setdefault("confirmed_by_me", {})
                cb.update(demo_exit_unchanged=res.get("demo_unchanged_rc"), demo_exit_with_change=res.get("demo_changed_rc"), tree=res.get("tree"))
                if "suite_ok" in res:
                    cb.update(baseline_tests_still_passing=res["suite_ok"], tests_passed=res["suite_passed"])
                json.dump(m, open(mp, "w"), indent=1)
            print(s, {k: v for k, v in res.items() if k in ("demo_unchanged_rc", "demo_changed_rc", "suite_ok", "suite_passed", "suite_secs", "error", "suite_missing")}, flush=True)


if __name__ == "__main__":
    sys.exit(main())
