#!/usr/bin/env python3
"""Run registered checks against the seeded changes, each in its own scratch worktree (never /repo), and record what they report.

usage: tools/seedmatrix.py [--seeds C01/6,C02] [--checks own|all|C10,C12] [--jobs N] [--tier quick] [--scratch DIR] [--force]

For each seed <ID>/<k> (default: all under seeded/): git worktree of /repo HEAD at <scratch>/<ID>_<k>, `git apply patch.diff`,
`PYVC_REPO=<worktree> ./check <C> --no-evidence` for every selected check C, worktree removed again.  The outcome per check is written to
seeded/<ID>/<k>/detect.json (exit code, VIOLATION lines, whether a failing input was replayed, wall time, /verif and /repo commits) and
merged into meta.json["detected_by"].  "own" = the seed's own property plus the checks named in tools/seed_neighbours.json for it.
Results already present for the same (/verif tree of checks+pyvc, /repo HEAD) are kept unless --force."""
import argparse
import concurrent.futures as cf
import glob
import hashlib
import json
import os
import re
import subprocess
import time

V = os.path.dirname(os.path.dirname(os.path.abspath(__file__)))
ALL = [f"C{i:02d}" for i in range(1, 21)]


def sh(*a, **k):
    return subprocess.run(a, capture_output=True, text=True, **k)


def machinery_hash():
    h = hashlib.sha256()
    for p in sorted(glob.glob(os.path.join(V, "pyvc", "**", "*.py"), recursive=True) + glob.glob(os.path.join(V, "checks", "*.py")) +
                    [os.path.join(V, "known_findings.json")] + glob.glob(os.path.join(V, "obligations", "*.json"))):
        h.update(open(p, "rb").read())
    return h.hexdigest()[:12]


def run_seed(seed, checks, scratch, tier, timeout):
    pid, k = seed.split("/")
    sd = os.path.join(V, "seeded", pid, k)
    wt = os.path.join(scratch, f"{pid}_{k}")
    sh("git", "-C", "/repo", "worktree", "remove", "--force", wt)
    r = sh("git", "-C", "/repo", "worktree", "add", "-q", "--detach", wt, "HEAD")
    out = {}
    try:
        if r.returncode:
            return seed, {c: dict(error="worktree: " + r.stderr[-300:]) for c in checks}
        r = sh("git", "-C", wt, "apply", os.path.join(sd, "patch.diff"))
        if r.returncode:
            return seed, {c: dict(error="patch does not apply: " + r.stderr[-300:]) for c in checks}
        for c in checks:
            t0 = time.time()
            env = dict(os.environ, PYVC_REPO=wt)
            try:
                p = sh(os.path.join(V, "check"), c, "--tier", tier, "--no-evidence", env=env, cwd=V, timeout=timeout)
                rc, txt = p.returncode, p.stdout + p.stderr
            except subprocess.TimeoutExpired as e:
                rc, txt = 124, (e.stdout or b"").decode("utf8", "replace") if isinstance(e.stdout, bytes) else (e.stdout or "")
            vio = re.findall(r"^VIOLATION .*$", txt, re.M)
            with_input = [v for v in vio if not v.rstrip().endswith("no-failing-input-found")]
            und = re.findall(r"^UNDECIDED .*$", txt, re.M)
            verdict = ("violation with replayed failing input" if rc == 1 and with_input else
                       "violation, no-failing-input-found" if rc == 1 and vio else
                       "undecided (exit 2)" if rc == 2 else "checker crash (exit 3)" if rc == 3 else
                       "timeout" if rc == 124 else "not detected" if rc == 0 else f"exit {rc}")
            names = sorted({m for v in vio for m in re.findall(r"replays/[^/]+/(.+?)\.json", v)})[:8]
            out[c] = dict(exit=rc, verdict=verdict, violation_lines=len(vio), with_replayed_input=len(with_input), undecided_lines=len(und),
                          failing_obligations=names, wall_s=round(time.time() - t0, 1), summary=(re.findall(r"^\[C\d\d\].*$", txt, re.M) or [""])[-1])
    finally:
        sh("git", "-C", "/repo", "worktree", "remove", "--force", wt)
    return seed, out


def main():
    ap = argparse.ArgumentParser()
    ap.add_argument("--seeds")
    ap.add_argument("--checks", default="own")
    ap.add_argument("--jobs", type=int, default=3)
    ap.add_argument("--tier", default="quick")
    ap.add_argument("--scratch", default="/tmp/wtm")
    ap.add_argument("--timeout", type=int, default=2400)
    ap.add_argument("--force", action="store_true")
    a = ap.parse_args()
    os.makedirs(a.scratch, exist_ok=True)
    if not os.path.exists(os.path.join(V, ".venv", "bin", "python")):
        subprocess.run([os.path.join(V, "setup.sh")], cwd=V, check=True, capture_output=True)
    seeds = sorted("/".join(p.split("/")[-3:-1]) for p in glob.glob(os.path.join(V, "seeded", "C*", "*", "patch.diff")))
    if a.seeds:
        want = a.seeds.split(",")
        seeds = [s for s in seeds if s in want or s.split("/")[0] in want]
    try:
        neigh = json.load(open(os.path.join(V, "tools", "seed_neighbours.json")))
    except Exception:
        neigh = {}
    mh = machinery_hash()
    head = sh("git", "-C", "/repo", "rev-parse", "--short", "HEAD").stdout.strip()
    jobs = []
    for s in seeds:
        pid = s.split("/")[0]
        if a.checks == "own":
            cs = [pid] + [c for c in neigh.get(s, []) if c != pid]
        elif a.checks == "all":
            cs = ALL
        else:
            cs = a.checks.split(",")
        dp = os.path.join(V, "seeded", s, "detect.json")
        old = {}
        if os.path.exists(dp) and not a.force:
            old = json.load(open(dp))
            cs = [c for c in cs if not (c in old.get("checks", {}) and old["checks"][c].get("machinery") == mh and old["checks"][c].get("repo_head") == head
                                        and "error" not in old["checks"][c])]
        if cs:
            jobs.append((s, cs))
    print(f"{len(jobs)} seeds to run, machinery {mh}, repo {head}", flush=True)
    with cf.ThreadPoolExecutor(a.jobs) as ex:
        futs = [ex.submit(run_seed, s, cs, a.scratch, a.tier, a.timeout) for s, cs in jobs]
        for f in cf.as_completed(futs):
            s, out = f.result()
            dp = os.path.join(V, "seeded", s, "detect.json")
            d = json.load(open(dp)) if os.path.exists(dp) else dict(seed=s, checks={})
            for c, r in out.items():
                r.update(machinery=mh, repo_head=head)
                d["checks"][c] = r
            json.dump(d, open(dp, "w"), indent=1, sort_keys=True)
            mp = os.path.join(V, "seeded", s, "meta.json")
            if os.path.exists(mp):
                m = json.load(open(mp))
                m["detected_by"] = {c: r.get("verdict", r.get("error")) for c, r in sorted(d["checks"].items())}
                json.dump(m, open(mp, "w"), indent=1)
            print(s, {c: (r.get("verdict") or r.get("error"), r.get("wall_s")) for c, r in out.items()}, flush=True)


if __name__ == "__main__":
    main()
