#!/usr/bin/env python3
"""Run the checks whose proof units read a module touched by a behaviour-preserving refactoring (seeded/benign/<B>/patch.diff) against the
refactored tree (scratch worktree): a VIOLATION there is a false alarm of the machinery; 'undecided' means a contract could not follow the new
code shape.  usage: tools/benign_matrix.py [--jobs N] [B01 ...]"""
import concurrent.futures as cf
import glob
import json
import os
import re
import sys

sys.path.insert(0, os.path.dirname(os.path.abspath(__file__)))
import seedmatrix as sm  # noqa: E402

V = sm.V


def modules_of(patch):
    return sorted({m.replace("/", ".")[:-3] for m in re.findall(r"^\+\+\+ b/(\S+\.py)", open(patch).read(), re.M)})


def main():
    args = [a for a in sys.argv[1:] if not a.startswith("--")]
    jobs = int(sys.argv[sys.argv.index("--jobs") + 1]) if "--jobs" in sys.argv else 2
    args = [a for a in args if not a.isdigit()]
    mod2checks = {}
    for f in glob.glob(os.path.join(V, "evidence", "C*.json")):
        e = json.load(open(f))
        for s in e["coverage"].get("sources", []):
            mod2checks.setdefault(s["module"], set()).add(e["property_id"])
    todo = []
    for d in sorted(glob.glob(os.path.join(V, "seeded", "benign", "B*"))):
        b = os.path.basename(d)
        if args and b not in args:
            continue
        checks = sorted({c for m in modules_of(os.path.join(d, "patch.diff")) for c in mod2checks.get(m, ())})
        todo.append((f"benign/{b}", checks))
    os.makedirs("/tmp/wtb", exist_ok=True)
    with cf.ThreadPoolExecutor(jobs) as ex:
        futs = [ex.submit(sm.run_seed, s, cs, "/tmp/wtb", "quick", 3000) for s, cs in todo]
        for f in cf.as_completed(futs):
            s, out = f.result()
            json.dump(dict(seed=s, checks=out), open(os.path.join(V, "seeded", s, "detect.json"), "w"), indent=1, sort_keys=True)
            print(s, {c: (r.get("verdict") or r.get("error"), r.get("wall_s")) for c, r in out.items()}, flush=True)


if __name__ == "__main__":
    main()
