#!/usr/bin/env python3
"""rewrite the seeded-change table of DESIGN.md (between the markers) from seeded/*/*/meta.json"""
import glob
import json
import os
import re

V = os.path.dirname(os.path.dirname(os.path.abspath(__file__)))
rows = []
for mp in sorted(glob.glob(os.path.join(V, "seeded", "C*", "*", "meta.json"))):
    m = json.load(open(mp))
    d = os.path.dirname(mp)
    try:
        diff = open(os.path.join(d, "patch.diff")).read()
    except Exception:
        diff = ""
    files = sorted(set(re.findall(r"^\+\+\+ b/(\S+)", diff, re.M)))
    det = dict(m.get("detected_by", {}))
    dj = os.path.join(d, "detect.json")
    if os.path.exists(dj):
        try:
            for c, r in json.load(open(dj)).get("checks", {}).items():
                if r.get("verdict"):
                    det[c] = r["verdict"]
        except Exception:
            pass
    best = []
    for c, v in det.items():
        short = {"violation with replayed failing input": "VIOLATION + replayed input", "violation, no-failing-input-found": "VIOLATION (no-failing-input-found)",
                 "undecided (exit 2)": "undecided", "not detected": "-"}.get(v, v)
        best.append(f"{c}: {short}")
    cb = m.get("confirmed_by_me", {})
    ok = cb.get("ported_patch_on_head") or cb
    cj = os.path.join(d, "confirm.json")
    if ok.get("demo_exit_unchanged") is None and os.path.exists(cj):
        try:
            cr = json.load(open(cj))
            ok = dict(ok, demo_exit_unchanged=cr.get("demo_unchanged_rc"), demo_exit_with_change=cr.get("demo_changed_rc"), baseline_tests_still_passing=cr.get("suite_ok"))
        except Exception:
            pass
    conf = f"demo {ok.get('demo_exit_unchanged')}->{ok.get('demo_exit_with_change')}, suite {'ok' if ok.get('baseline_tests_still_passing') else ok.get('baseline_tests_still_passing')}"
    rows.append(f"| {m['seed']} | {', '.join(f.replace('tdgl/', '') for f in files)} | {conf} | {'; '.join(best) or 'n/a'} | {m.get('note', '')} |")
table = "\n".join(["| seed | file(s) changed | confirmed (demo exit unchanged->changed, baseline tests) | checks run against it | note |", "|---|---|---|---|---|"] + rows)
p = os.path.join(V, "DESIGN.md")
s = open(p).read()
a, b = "<!-- SEED-TABLE-BEGIN -->", "<!-- SEED-TABLE-END -->"
if a in s:
    s = s[:s.index(a) + len(a)] + "\n" + table + "\n" + s[s.index(b):]
    open(p, "w").write(s)
    print("table rewritten:", len(rows), "rows")
else:
    print(table)
