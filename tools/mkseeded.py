#!/usr/bin/env python3
"""(re)build /verif/seeded/<property>/<k>/ from the scratch seed directories and the validation / detection results.
usage: tools/mkseeded.py  -- reads /tmp/seeds (round 1, made against d14b75d), /tmp/seeds_ported (hand-ported to HEAD where a fix:
commit rewrote the same lines), /tmp/wt2/<id>/_seed/1 (round 2) and /tmp/wt3/<id>/_seed/1 (round 3), made against HEAD, /tmp/seedcheck/*.json, /tmp/matrix_final.json"""
import glob
import json
import os
import shutil
import subprocess

V = os.path.dirname(os.path.dirname(os.path.abspath(__file__)))
OUT = os.path.join(V, "seeded")
HEAD = subprocess.run(["git", "-C", "/repo", "rev-parse", "--short", "HEAD"], capture_output=True, text=True).stdout.strip()


def load(p):
    try:
        return json.load(open(p))
    except Exception:
        return None


def needs_from_notes(p, n=900):
    """the section of notes.md that says what the change needs in order to manifest (heading or numbered item mentioning need/trigger/manifest)"""
    import re
    try:
        txt = open(p).read()
    except Exception:
        return ""
    m = re.search(r"(?im)^(#+\s*|\d+\.\s*\**)?[^\n]*(needs? |needed|trigger|manifest)[^\n]*\n", txt)
    if not m:
        return txt[:n]
    return txt[m.start():m.start() + n].strip()


def first_para(p, n=1200):
    try:
        return open(p).read()[:n]
    except Exception:
        return ""


matrix = load("/tmp/matrix_final.json") or {}
manual = load(os.path.join(V, "tools", "seed_notes.json")) or {}
entries = []
for sd in sorted(glob.glob("/tmp/seeds/C*/[12]")):
    pid, k = sd.split("/")[-2:]
    entries.append((pid, k, sd, "round 1 (sub-agent, made against d14b75d)"))
for sd in sorted(glob.glob("/tmp/wt2/C*/_seed/1")):
    pid = sd.split("/")[-3]
    entries.append((pid, "3", sd, f"round 2 (sub-agent, made against {HEAD})"))
for sd in sorted(glob.glob("/tmp/wt3/C*/_seed/1")):
    pid = sd.split("/")[-3]
    entries.append((pid, "4", sd, f"round 3 (sub-agent, made against {HEAD}, told which ideas were already taken)"))
for sd in sorted(glob.glob("/tmp/wt4/C*/_seed/1")):
    pid = sd.split("/")[-3]
    entries.append((pid, "5", sd, f"round 4 (sub-agent, made against {HEAD}, told which ideas were already taken)"))
for sd in sorted(glob.glob("/tmp/wt5/C*/_seed/1")):
    pid = sd.split("/")[-3]
    entries.append((pid, "6", sd, f"round 5 (sub-agent, made against {HEAD}, told which ideas were already taken)"))
for pid, k, sd, origin in entries:
    dst = os.path.join(OUT, pid, k)
    os.makedirs(dst, exist_ok=True)
    ported = f"/tmp/seeds_ported/{pid}_{k}/patch.diff"
    if os.path.exists(ported):
        shutil.copy(ported, os.path.join(dst, "patch.diff"))
        shutil.copy(os.path.join(sd, "patch.diff"), os.path.join(dst, "patch.orig-d14b75d.diff"))
    else:
        shutil.copy(os.path.join(sd, "patch.diff"), os.path.join(dst, "patch.diff"))
    for f in ("demo.py", "notes.md"):
        if os.path.exists(os.path.join(sd, f)):
            shutil.copy(os.path.join(sd, f), os.path.join(dst, f))
    sc = load(f"/tmp/seedcheck/{pid}_{k}.json") or {}
    sc_head = load(f"/tmp/seedcheck/{pid}_{k}p.json") if os.path.exists(ported) else None
    key = f"{pid}/{k}"
    det = matrix.get(key, {})
    meta = dict(
        property=pid, seed=key, origin=origin,
        applies_to_repo_head=subprocess.run(["git", "-C", "/repo", "apply", "--check", os.path.join(dst, "patch.diff")], capture_output=True).returncode == 0,
        ported_by_hand=os.path.exists(ported),
        what_it_needs_to_manifest=manual.get(key, {}).get("needs") or needs_from_notes(os.path.join(sd, "notes.md")),
        confirmed_by_me=dict(
            how="scratch worktree (never /repo): demo.py on the unchanged tree, git apply patch.diff, demo.py again, then the pinned test command "
                "(pytest -n 8 --timeout=3600, junit) compared id by id with the 705 baseline passes",
            demo_exit_unchanged=sc.get("demo_unchanged_rc"), demo_exit_with_change=sc.get("demo_changed_rc"),
            baseline_tests_still_passing=sc.get("suite_ok"), tests_passed=sc.get("suite_passed"), tree=sc.get("tree", "d14b75d"),
            ported_patch_on_head=(dict(demo_exit_unchanged=sc_head.get("demo_unchanged_rc"), demo_exit_with_change=sc_head.get("demo_changed_rc"),
                                       baseline_tests_still_passing=sc_head.get("suite_ok"), tests_passed=sc_head.get("suite_passed"), tree=sc_head.get("tree")) if sc_head else None)),
        detected_by={c: ("violation with replayed failing input" if r.get("confirmed") else ("violation, no-failing-input-found" if r.get("violations") else
                                                                                             ("undecided (exit 2)" if r.get("undecided") else "not detected")))
                     for c, r in det.items()},
        note=manual.get(key, {}).get("note", ""),
    )
    json.dump(meta, open(os.path.join(dst, "meta.json"), "w"), indent=1)
print(len(entries), "seeds written to", OUT)
