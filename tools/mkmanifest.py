"""regenerate /verif/MANIFEST.json from the table below (run: .venv/bin/python tools/mkmanifest.py)"""
import json
import os

V = os.path.dirname(os.path.dirname(os.path.abspath(__file__)))
props = [json.loads(l) for l in open(os.path.join(V, "properties.jsonl"))]

TRUST = ("Assumes A1 (floats as reals), A2, A3, A4 (numpy/scipy/h5py/pint models), A6 (numba), A8 (CPython), A9 (partial "
         "correctness), A10 (pyvc engine + z3/cvc5) of DESIGN.md section 3; per-check assumptions are listed in the evidence file.")

CLAIMS = {
    "C02": dict(
        category="proof",
        text="Contract on the real static method TDGLSolver.solve_for_psi_squared, discharged for every per-site input "
             "(all psi, mu, epsilon, gamma>=0, u>0, dt>0, arbitrary Laplacian action) by z3/nlsat over the reals: z,w equal the "
             "documented ones, psi'+z|psi'|^2=w, x=|psi'|^2>=0, documented branch, refusal iff some site has a negative "
             "discriminant, plus three solvability lemmas; on arrays: the inputs are not written and the results are new arrays (also for gamma = 0). "
             "Bit-level FP behaviour (traps, rounding) is not decided.",
        design_ref="DESIGN.md section 4 C02",
        technique="contract-based deductive verification: symbolic execution of the real source with opaque cuts, VCs to z3 (nlsat) / cvc5",
        note=TRUST + " FP traps (underflow refusals) invisible; thorough tier adds a bounded native cross-check (labelled bounded).",
    ),
}

OPS_NOTE = TRUST + " valid_mesh hypotheses (0<=i_e<j_e<N, distinct site pairs, areas>0, lengths>0); numpy/scipy.sparse models; block-wise matrix comparison is sufficient, not necessary."
CLAIMS["C03"] = dict(
    category="proof",
    text="Stencil postconditions (written from the docs) proved block-wise on the matrices the real build_divergence / build_gradient / "
         "build_laplacian / build_neumann_boundary_laplacian assemble for a mesh with SYMBOLIC numbers of sites, edges, boundary edges and "
         "pinned sites, plus the identities (L = D o G, area-weighted divergence sums to zero, flux integral, symmetry, negative "
         "semi-definite edge form, kernel, Hermiticity for any real vector potential, gradient exact on linear functions) as lemmas over "
         "those stencils at the generic edge. Holds for every triangulation; three finite-sum meta-lemmas are trusted.",
    design_ref="DESIGN.md section 4 C03",
    technique="contract-based deductive verification: real builders executed on symbolic arrays / sparse blocks, per-edge VCs to z3",
    note=OPS_NOTE)
CLAIMS["C10"] = dict(
    category="proof",
    text="Class invariant of the real MeshOperators: psi_gradient and psi_laplacian equal the from-scratch stencils for link_exponents. "
         "Proved: established by the first set_link_exponents call and preserved by a call with an arbitrary new vector potential "
         "(pinned rows included, pinning on and off), hence by induction after every finite history of vector potentials on every mesh. "
         "Side conditions of the in-place sparse assignment (mask conformance, alignment with one assembled block, sole contributor, no complex->real downcast) are obligations.",
    design_ref="DESIGN.md section 4 C10",
    technique="contract-based deductive verification: class invariant + symbolic sparse-block execution of the real set_link_exponents, VCs to z3",
    note=OPS_NOTE + " scipy M[rows,cols]=vals contract assumed. The solver-side trigger is decided on the real TDGLSolver.update (callees stubbed): at every Euler step the operators hold the latest total vector potential; the defect found there (stale operators under a slow ramp) was repaired by a fix: commit.")
CLAIMS["C06"] = dict(
    category="proof",
    text="Pinned-row stencil of the real build_laplacian (row of a pinned site is exactly the identity entry, free sites get no identity row, no "
         "pinned rows when pinning is off), the in-place refresh keeps pinned rows (C10 invariant), and one step of the real "
         "solve_for_psi_squared at a pinned site keeps psi = 0 for all mu, epsilon, gamma, u, dt. For a NON-ZERO terminal value the step "
         "obligation fails on the pinned tree: recorded as a known finding (known_findings.json).",
    design_ref="DESIGN.md section 4 C06",
    technique="contract-based deductive verification: stencil contracts on symbolic meshes + per-site NRA on the real step function",
    note=OPS_NOTE + "")

CLAIMS["C04"] = dict(
    category="proof",
    text="Operator level, for all meshes, vector potentials, psi and gauge functions chi: the real build_gradient / get_supercurrent "
         "executed for A and for A' (A'.d = A.d + chi_j - chi_i) give a covariant gradient and an unchanged supercurrent at the generic "
         "edge; the covariant Laplacian transforms covariantly (per-edge lemma on the C03 stencil). Step level: the real "
         "solve_for_psi_squared executed for (psi, L psi) and the rotated pair: same refusal test, same |psi'|^2, rotated psi'; a constant "
         "shift of mu is a global phase. The whole-run clause is a written corollary (lemmas/gauge_run.md), not mechanised.",
    design_ref="DESIGN.md section 4 C04",
    technique="contract-based deductive verification: relational (two-run) VCs on the real functions; polynomial identities modulo unit-circle constraints (ring normalisation + z3)",
    note=OPS_NOTE + " cis laws (A3); A5 for mu; recentring of the uniform-field potential is decided in C08.")

CLAIMS["C17"] = dict(
    category="proof",
    text="Real-arithmetic fixpoint: the real solve_for_psi_squared at psi=1, mu=0, epsilon=1, zero Laplacian action returns (1,1) and never asks "
         "for a refusal, for all gamma>=0, u>0, dt>0; on every mesh the real operators give zero supercurrent, zero covariant Laplacian of the "
         "constant (per-edge, A=0), zero Poisson right-hand side and zero normal current; by induction the state is stationary in exact "
         "arithmetic. 'No change from rounding' is NOT decided by the proof; the bounded native run of the thorough tier found that it "
         "fails on meshes beyond the explicit-Euler stability limit (known finding).",
    design_ref="DESIGN.md section 4 C17",
    technique="contract-based deductive verification: fixpoint VCs on the real step function and operators (z3/ring); bounded native stand-in for rounding",
    note=OPS_NOTE + " A5 at zero right-hand side. dt growth is the C12 window rule at delta=0.")

CLAIMS["C12"] = dict(
    category="proof",
    text="Loop invariant with a ghost power function on the real retry loop of adaptive_euler_step (solve_for_psi_squared abstracted by its contract): "
         "returned dt = dt_in * multiplier^(number of refusals) = the dt of the answered attempt, never returns a refused result, raises only after a "
         "refusal and only when not adaptive or the retries are exhausted. On the real update() (callees stubbed by contracts, screening loop cut): dt "
         "returned in (0, dt_max], equals dt_init with adaptivity off, the window rule min(1/2(dt + dt_init/delta), dt_max) with delta the mean of the last "
         "`window` entries after step > window, history grows by one per step; on the real solve() every run - also a repeated one on the same solver - "
         "hands the runner dt_init and an empty history. All option values, all histories, no bound. One defect (repeated solve() kept the adaptive state) repaired by a fix: commit.",
    design_ref="DESIGN.md section 4 C12",
    technique="contract-based deductive verification: loop invariants + modular callee contracts on the real methods, VCs to z3",
    note=TRUST + " Options are assumed to satisfy validate() plus dt_init>0, max_solve_retries>=0, adaptive_window>=1. The 1e-10 floor on delta is part of the stated rule.")

CLAIMS["C13"] = dict(
    category="proof",
    text="The real numba kernel source (loops cut by mechanically generated invariants whose side conditions are obligations) computes, for every "
         "edge and component, the direct double sum of J[j,k]*a[j]/|c_i - r_j| over all sites; the real get_induced_vector_potential implements the Polyak "
         "update and error = max over edges of |kernel - A_prev| / max(|A_next|, 1e-20); on the real update() the screening loop returns only when the "
         "last error is below the tolerance, raises RuntimeError only when the budget is exhausted without convergence, and with screening off returns "
         "the input potential after a single pass; the real Mesh.get_quantity_on_site (site average of the edge currents fed to the kernel) is half the mean over "
         "the incident edge ends of q_e x unit direction (bincount as guarded finite sums). The 'modest multiple of the tolerance' clause is a numerical bound "
         "and only covered by the bounded run.",
    design_ref="DESIGN.md section 4 C13",
    technique="contract-based deductive verification: generated reduction/map loop invariants on the kernel source, loop contract on update(), VCs to z3",
    note=TRUST + " Preconditions: no edge centre coincides with a site; every site has an incident edge. Unit factor mu0/4pi K0/A0 xi^2 belongs to C08.")

CLAIMS["C20"] = dict(
    category="proof",
    text="The real Biot-Savart kernels (z and vector), executed as their Python source with mechanically generated loop invariants, equal the direct "
         "sums mu0/4pi * sum_k a_k (J_k x r)/|r|^3 of the docstring for every evaluation point off the sheet; each summand is linear in the current "
         "densities; the scalar kernel's summands are those of the z component of the vector kernel; the four pairwise-distance kernels and the "
         "cdist dispatcher are correct. With the pint model (symbolic unit factors) and vectorised reductions as finite sums over a symbolic range: "
         "Solution.vector_potential_at_position = (mu0/4pi) sum K a / r in SI per part, total = applied + supercurrent + normal parts; the sheet current "
         "density and its total; Mesh.get_quantity_on_site linear in the edge currents; convert_field (B = mu0 H, same-kind conversions, round trip). "
         "Solution.field_at_position and biot_savart_2d under call contracts; the loop vector potential is its documented closed form. The pint library "
         "itself and the closed form vs quadrature only in the bounded native run.",
    design_ref="DESIGN.md section 4 C20",
    technique="contract-based deductive verification: generated reduction/map loop invariants on the kernel sources, summand VCs to z3",
    note=TRUST + " Evaluation points off the film plane (r != 0). Linearity of the whole sum from linearity of the summand is a trusted finite-sum lemma.")
CLAIMS["C09"] = dict(
    category="other",
    text="Bit-for-bit identity across processes and thread counts is not expressible in a real-arithmetic contract and is NOT decided. Decided, for all "
         "inputs: the 7 parallel kernels are race free (iteration i writes only its own slice, reads nothing another iteration writes, no loop-carried "
         "state reaches a written value), every element of their np.empty output buffers is assigned before use, and the random sample times of "
         "validate_terminal_currents reach nothing but the accept/reject decision, which for currents balanced at all times does not depend on them. "
         "Bounded native runs (quick tier, reduced): sha256 of all recorded bytes across heap states, hash seeds and thread counts in fresh processes, and a "
         "history-independence harness - the same simulation on objects with a history (options / device / copy / other solvers alive / solver solved "
         "before / output path / parameter objects reused) is bit-identical to the run on freshly built objects. One defect found by it was repaired by a fix: commit.",
    design_ref="DESIGN.md section 4 C09",
    technique="contract-based deductive verification of the source-level hazards (generated loop invariants with race-freedom side conditions); bit identity only bounded",
    note=TRUST + " Triangle/qhull/SuperLU/numba code generation are outside contracts; level claimed is 'other', not proof.")

CLAIMS["C05"] = dict(
    category="proof",
    text="Loop invariant with ghost history on the real Runner._run_stage (update function and frame writer abstracted by contracts; save_every, end_time "
         "and every time step symbolic - no bound on k or N): the update is called exactly once per step, in order, with time T(i), the previous dt and "
         "state S(i); every frame written is labelled (s, T(s)) and holds S(s); frames are written at multiples of save_every and at the final step; the "
         "buffer written with a frame holds the steps since the previous frame once, in order, zero padded; the loop leaves at the first step whose time "
         "reaches end_time; thermalisation is never recorded and the recorded stage restarts from step 0, time 0 with a cleared buffer (real Runner.run); "
         "update() records dt / probes / screening iterations once per step. Reader side, against the writer's postcondition as file model (symbolic number of "
         "frames, buffer size and probes): the real DynamicsData.from_hdf5 (frame loop cut at an invariant over lists of symbolic length) returns one record per "
         "step, in step order, time = T(j+1); the real Solution.times returns exactly the frame times; load_tdgl_data reads the records over all frames whatever "
         "frame is loaded. The link between the two - the real DataHandler.save_time_step - is under contract over the abstract HDF5 store for symbolic buffer size, "
         "probe count and array sizes: frames are numbered in call order and labelled with the state handed over, hold the arrays handed over, a single-row buffer "
         "(dt, screening iterations) is stored as a vector over the buffer for EVERY buffer size incl. 1, a probe buffer as probes x buffer. That real h5py returns "
         "arrays of these ranks is the exhaustive bounded native run (k <= N+2, N <= 9). Four defects found here were repaired by fix: commits.",
    design_ref="DESIGN.md section 4 C05",
    technique="contract-based deductive verification: loop invariants with ghost history on the real runner and on the real reader (lists of symbolic length, prefix-mask and induction lemmas with their own VCs), VCs to z3; bounded native stand-in for the HDF5 layout",
    note=TRUST + " dt>0 from C12. tqdm/logging/monitor outside the contract.")

CLAIMS["C15"] = dict(
    category="proof",
    text="Exceptional postconditions on the real code: (1) Runner._run_stage with an error / KeyboardInterrupt injected into the abstract update or the "
         "abstract frame writer at the GENERIC iteration of the cut loop (all step indices of both stages at once): errors propagate, a cancellation ends "
         "the stage and is reported, every frame written before or at the stop carries its own label and state, a cancelled thermalisation skips the "
         "recorded stage; (2) DataHandler enter/exit executed on an abstract file system for every subset of pre-existing output/tmp names: fresh name, "
         "existing files untouched, no leaked handle or file, everything released on exit, exceptions not swallowed; (3) TDGLSolver.solve: every path runs "
         "__exit__ exactly once, errors propagate after cleanup, cancellation returns a Solution / None; (4) fault enumeration at every h5 operation of the "
         "real frame writer - NOT atomic: known finding. One leak defect was repaired by a fix: commit.",
    design_ref="DESIGN.md section 4 C15",
    technique="contract-based deductive verification: exceptional postconditions with fault injection at the generic loop iteration; abstract resource model; fault enumeration for the writer",
    note=TRUST + " h5py/os/tempfile replaced by an abstract resource model (assumed contract); OS/HDF5 state after close only in the bounded native run; pause_on_interrupt=False.")

CLAIMS["C11"] = dict(
    category="proof",
    text="On the real update() (callees stubbed): the returned dt and the next proposed step do not mention save_every / progress_interval / output file, "
         "running_state is append-only (any read fails the obligation), inputs are not mutated and outputs do not alias inputs, probes only add records. "
         "On the real runner loop with SYMBOLIC save_every the update of step i is called with S(i), T(i) and the previous dt whatever the save interval, and a "
         "frame labelled s holds S(s) (C05) - so same-label frames coincide across recording configurations (corollary). On the real solve(): a seed "
         "solution supplies psi, mu, currents and induced potential of its loaded frame as initial values, in update order, and every run starts from the "
         "time-dependent inputs at time zero with the operators refreshed together with the reference potential; the step function does not write its "
         "inputs (array-level frame contract). Bit-for-bit equality and the resume equality itself are only covered by the bounded native run.",
    design_ref="DESIGN.md section 4 C11",
    technique="contract-based deductive verification: non-interference obligations on update(), runner loop invariant for symbolic save_every, seed contract on solve(); bounded native resume run",
    note=TRUST + " Bit identity is A1/A6 (not decided).")

CLAIMS["C16"] = dict(
    category="proof",
    text="Structural induction on the real Parameter / CompositeParameter classes: operands are abstract parameters (real instances around leaf functions "
         "returning uninterpreted symbolic values) satisfying the class contract Inv_P; for all 5 operators x all operand kinds (2-d, 3-d, time-dependent "
         "with cache on/off/already used, static and time-dependent composites, int, float) on both sides the composite built through the real operator "
         "overloads satisfies Inv_P again (attributes defined, time_dependent iff some operand is), evaluates to op(V_left, V_right) symbolically at "
         "successive points (stale caches would show), clears the caches of the whole tree, compares structurally, survives pickling with its value, and "
         "meets the three solver touch points. Because operands are used only through Inv_P this covers trees of any depth. Three defects repaired by a fix: commit.",
    design_ref="DESIGN.md section 4 C16",
    technique="contract-based deductive verification: class contract (operand contract -> composite contract) on the real classes with symbolic leaf values, VCs to z3",
    note=TRUST + " Mixing 2-d and 3-d parameters in one expression is outside the property (z is passed to every operand). pickle/cloudpickle/numpy are the real libraries.")

CLAIMS["C14"] = dict(
    category="proof",
    text="Round-trip contracts of the real save/load code over an abstract HDF5 store with symbolic contents: every SolverOptions field incl. None-valued "
         "ones through Solution._save_to_hdf5_file / Solution.from_hdf5; Solution(_solve_step=k) and load_tdgl_data for symbolic k (0, negative, positive); "
         "Layer for every presence pattern of conductivity; EdgeMesh, Mesh (full, compressed, restorable test, voronoi split-back) and DynamicsData with "
         "opaque symbolic arrays; CompositeParameter pickling keeps attributes, structure and value for all operator x operand-kind combinations (C16 unit). "
         "Polygon / Device (shapely) round trips, TDGLData per recorded step and 'restored mesh equals recomputed mesh' are covered only by the bounded native run "
         "(real h5py). One defect repaired by a fix: commit.",
    design_ref="DESIGN.md section 4 C14",
    technique="contract-based deductive verification: round-trip postconditions of the real to_hdf5/from_hdf5 pairs over an abstract store; bounded native run for shapely/h5py",
    note=TRUST + " h5py replaced by an abstract store (assumed contract).")

CLAIMS["C01"] = dict(
    category="proof",
    text="On the real code, for all meshes and inputs: solve_for_observables returns (mu, Js, Jn) with divergence(Js+Jn) = boundary-flux(mu_boundary) at every "
         "cell (formal linear-algebra identity over the builder contracts L = D o G of C03 and A5), static and time-dependent A; update_mu_boundary sets on "
         "the edges of terminal t the density -(1/L_t) sum_{s!=t} I_s (= I_t/L_t when balanced), leaves every other boundary edge untouched and keeps its "
         "cache consistent (3 terminals, also when a callable omits a terminal); per-edge lemmas: half of each terminal edge's flux goes to each end cell, cells "
         "touching no terminal edge receive nothing, the Poisson problem is compatible; the constructor scales the requested currents to 4 (I/length unit)/K0 "
         "for SYMBOLIC unit scale factors; update() sets the boundary condition once for state['time'] before solving and returns the triple of its last solve. "
         "Acceptance of balanced currents is an IEEE statement: decided only by the bounded native search (10k assignments x unit factors; labelled bounded). "
         "One defect repaired by a fix: commit.",
    design_ref="DESIGN.md section 4 C01",
    technique="contract-based deductive verification: linear-algebra identity over callee contracts, scatter/cached-state contract, symbolic-units constructor run; bounded native search for the float acceptance clause",
    note=TRUST + " A5 (exact sparse solve); terminal boundary-edge sets disjoint; Device.terminal_info (which edges belong to a terminal, matplotlib) not under contract; frame 0 is the initial condition.")
CLAIMS["C08"] = dict(
    category="proof",
    text="The real TDGLSolver.__init__ and Device.Bc2/A0/K0 executed on a symbolic mesh with a pint model whose length, field and current unit scale factors "
         "are SYMBOLIC positive reals: the dimensionless vector potential equals A_phys/(Bc2 xi), the potential is evaluated at the physical edge centres, the "
         "dimensionless current density equals 4 (I_phys/length)/K0, the screening weights equal (mu0/4pi)(K0/A0) a_i xi^2 per length unit - expressions in "
         "physical quantities only, hence unit independent. Lemma: the link exponents around any triangle in a uniform field sum to 2 pi flux/Phi_0 for any "
         "recentring. Physical outputs with SYMBOLIC unit factors: Solution.load_tdgl_data gives the sheet current density K0 (real Device.K0, SI) x site current in "
         "current units per length unit; Solution.vector_potential_at_position gives (mu0/4pi) sum K a / r in SI for stored densities in any units and any "
         "requested output units; Solution.field_at_position passes the DEVICE's length and current units to the Biot-Savart routine. 'Same dimensionless "
         "solution' is a corollary (shared mesh; mu up to a constant); magnetic_moment / fluxoid / path currents only in the bounded native run.",
    design_ref="DESIGN.md section 4 C08",
    technique="contract-based deductive verification: symbolic unit scale factors (pint model) through the real constructor, VCs to z3 (nonlinear real arithmetic)",
    note=TRUST + " pint itself is replaced by a model (assumed contract); Triangle meshing is not unit-covariant bit-wise (same dimensionless mesh assumed).")
CLAIMS["C19"] = dict(
    category="proof",
    text="Raise-before-first-effect on the real code: the constructor (symbolic run) rejects epsilon > 1 at some site, a terminal of zero boundary length and "
         "terminal currents unbalanced by more than 1e-6 of the largest (for arbitrary sample times), each before the operators are built, accepts only "
         "well-posed input, and contains no file-creating call; SolverOptions.validate raises iff one of its documented inconsistencies holds (all branches, "
         "symbolic fields); solve() raises the seed-device mismatch and option errors before DataHandler is constructed; Device.__eq__ (on which the seed check "
         "relies) distinguishes devices that differ in any named component including a moved hole or reshaped terminal. Wrong-shape potentials, invalid polygons "
         "and device definitions: bounded native run with directory listing.",
    design_ref="DESIGN.md section 4 C19",
    technique="contract-based deductive verification: exceptional postconditions ordered against effects on the real constructor / validate / solve; syntactic effect check",
    note=TRUST + " Partially unbalanced callables can pass the sampled validation (limitation of the code, stated).")

CLAIMS["C18"] = dict(
    category="other",
    text="Geometry itself (areas, point-set semantics of union/intersection/difference, point mapping) is computed by shapely/GEOS and matplotlib and is NOT "
         "decided by contracts: bounded native run only. Decided on the real Polygon/Device code under assumed library contracts (identity-tracking models "
         "of shapely objects): the points setter is the only writer of the stored vertices and on every non-raising path stores close_curve(orient(.)), also "
         "after rotate/translate/scale with SYMBOLIC parameters (branches on parameters fork); +,-,* dispatch to union/difference/intersection of the two "
         "operands' geometries, n-ary forms fold left and keep name and mesh flag; non-in-place transforms, copy and zero-operand set operations return a "
         "new object and leave the receiver untouched, in-place ones return the receiver; Device.contains_points is film AND NOT any hole for 0..3 holes "
         "over symbolic boolean arrays.",
    design_ref="DESIGN.md section 4 C18",
    technique="contract-based deductive verification of the wrapper logic over models of the geometry library (heap identity / provenance obligations); geometry only bounded",
    note=TRUST + " GEOS and matplotlib.path are assumed (A7); level claimed is 'other'.")

CLAIMS["C07"] = dict(
    category="other",
    text="The triangulation comes from Triangle and the boundary-cell areas from qhull: tiling, orientation, Euler characteristic, boundary sites on the "
         "outlines, cell areas = clipped Voronoi regions and the terminal-length tolerance CANNOT be decided by contracts on Python code; they are checked only "
         "on a bounded family of generated geometries (real mesher; 6 geometries in the quick tier, 16 in the thorough tier, including devices far from the origin "
         "with holes; cell areas against an independent half-plane clipping). Proved for the generic triangle / edge on the real kernels: the Voronoi vertex "
         "returned by generate_voronoi_vertices is equidistant from the three vertices and lies on all three perpendicular bisectors whenever the triangle is "
         "non-degenerate, its determinant is four times the signed area; triangle_areas is the signed area (positive iff counter-clockwise); EdgeMesh.from_mesh "
         "gives direction = r_j - r_i, centre = midpoint, length = Euclidean norm, boundary edges = flagged edges; lemma: circumcentre-to-circumcentre and "
         "circumcentre-to-midpoint segments are perpendicular to the edge (dual-length rule).",
    design_ref="DESIGN.md section 4 C07",
    technique="contract-based deductive verification of the Python geometry kernels (generic triangle/edge, ring normalisation + z3); the mesher itself only by a bounded native run",
    note=TRUST + " Triangle, qhull, shapely are unverified C/C++ (A7); level claimed is 'other'.")

NA = {}

# units added after the seeded rounds (DESIGN.md section 8.5)
EXTRA = {
    "C08": " Fourth session: the real uniform_Bz_vector_potential and constant_field_vector_potential are executed on the pint model (symbolic unit factors and number of points): A = (B/2)(-(y - y_c), x - x_c, 0) about one common centre, numbers in field x length units independent of the unit system, circulation around any triangle of evaluation points = B x area (deciding unit for the flux clause; the formula-level lemma is kept); a transformed / copied device keeps its length units (unit shared with C18).",
    "C13": " Fourth session: in the update() unit the state dictionary is the runner's - an entry other than step / time / dt is absent or arbitrary, so the convergence rule (error below the REQUESTED tolerance at every accepted step) cannot depend on it; native: screened run with a thermalisation stage, every update call checked.",
    "C14": " Fourth session: frames - the real writer (save_fixed_values / save_time_step) followed by the real frame reader (TDGLData.from_hdf5, load_state_data, Solution.load_tdgl_data) over the abstract store with symbolic sizes: every field read back for frame f is what the f-th call was handed, also for ONE solution object moved from frame to frame and for a per-frame applied potential / epsilon; Mesh.from_triangulation wiring under contract (a mesh is a function of its triangulation, so the restored mesh equals the recomputed one given the kernels' own contracts).",
    "C03": " Also under contract: the operators object the solver uses - after the real MeshOperators.build_operators, for every CPU sparse-solver branch, the four "
           "scalar operators are the stencil matrices (storage conversions / raw-buffer reinterpretation modelled) and the factorisation is of that Laplacian. Fourth session: every builder carries the frame condition 'no module-level container is written' (its result is a function of its arguments; candidate decided by the native replay on short-lived meshes sharing a triangulation), and Mesh.smooth is under contract over its result (see C07).",
    "C06": " Which sites are pinned: the real Device.terminal_info, executed over the free term algebra of the device state, returns the boundary sites inside each "
           "CURRENT terminal of the CURRENT mesh after any history of calls (re-meshing, in-place terminal edits); the constructor clause is decided in the __init__ unit (C06.init.*).",
    "C07": " The real generate_mesh (wrapper around Triangle) is under contract with a stub mesher whose output is symbolic: every return path hands back the last triangulation moved "
           "rigidly by the shift that was applied to the outline. The integer / adjacency part of the mesh construction is under contract for a symbolic number of sites, triangles and "
           "edges: get_edges hands np.unique exactly the three sorted sides of every triangle and flags an edge iff its multiplicity is one; Mesh.find_boundary_indices returns the distinct "
           "end points of exactly the flagged edges; make_adj_directed_tri_indices stores triangle index + 1 at the directed sides; get_dual_edge_lengths groups the adjacency entries by "
           "unordered site pair (loop contract: one append of v - 1 per entry) and writes, for edge e only at position e, circumcentre-to-midpoint for an edge of one triangle and "
           "circumcentre-to-circumcentre for an edge of two (loop contract: own position, value independent of other iterations) - relative to assumed contracts of np.sort / np.unique / "
           "scipy.sparse (A4) and the preconditions 'consistently oriented triangulation', 'every edge is a side of one or two triangles'.",
    "C09": " Syntactic contract over the numerical core: no loop, comprehension or order-exposing conversion iterates over a hash-ordered set (candidates are replayed with different PYTHONHASHSEED values).",
    "C12": " The constructor (with and without a seed solution) is under contract for the initial step and the step cap.",
    "C16": " Operand kinds include parameters made by closure factories (equal under ==, different values). tdgl.sources.scaling (linear_ramp piecewise definition, LinearRamp / Scale build time-dependent parameters carrying their arguments) is under contract.",
    "C17": " The stencil is also compared after a refresh with the same zero potential (the screening loop refreshes at every iteration).",
    "C18": " After an in-place change (transform or vertex assignment) membership queries and the derived shape are built from the vertices stored now (identity-level candidates, replayed natively). Fourth session: Device.rotate / scale / translate / copy are stated over the RESULT (every polygon mapped exactly once with the given parameters, receiver untouched, nothing shared, probe points through the same map, name / layer / length units kept) whatever way the device is assembled; tdgl.geometry.close_curve / ensure_unique / rotate are under contract (rotate incl. the rigidity lemmas); the bounded family includes non-convex shapes and a notch case.",
    "C19": " The seed guard's premise is under contract: the real Solution.__init__ records a copy of the device made at construction (sharing the mesh).",
    "C20": " The public wrapper biot_savart_2d is under a call contract with dtype kinds (integer coordinates, real scalar height, unit factors), and current_loop_vector_potential is proved to be the "
           "documented closed form of the position relative to the loop centre (transcendental functions uninterpreted), linear in the current, translation covariant; equality with the line integral is bounded quadrature. Fourth session: harness objects are built through the real Solution constructor; history obligations - after the solution's sheet currents changed, fields and potentials are those of the currents it holds now (symbolic units, call contract and native moved-frame cases); tdgl.sources.loop under a call contract (arguments by name, result in the user's field x length units).",
}
for _k, _v in EXTRA.items():
    CLAIMS[_k]["text"] = CLAIMS[_k]["text"] + _v

# fifth session
EXTRA5 = {
    "C06": " Fifth session: the real adaptive_euler_step is under contract for this property as well - every attempt (first and retried) is a step of the solver's own psi Laplacian (the operator that carries the pinned rows) on the caller's psi, and the arrays handed back are the answered attempt's result as it is, on every return path; native: scripted refusals of the first 0..3 attempts on a real solver, terminal sites stay at the terminal value.",
    "C08": " Fifth session: the time and voltage scales a user multiplies the dimensionless results with - Device.tau0 / V0 (and kappa, Lambda, conductivity) - are under contract on the pint model with a symbolic length-unit factor: tau0 = mu0 sigma lambda^2 in seconds, V0 = xi (K0 / d) / sigma in volts, stated in SI quantities of the film only (the same film in another length unit has the same scales); an explicit conductivity takes precedence, no conductivity is refused; native: one film stated in um / nm / mm.",
    "C07": " Fifth session: the per-site rule of compute_voronoi_polygon_areas is under contract on the real code (real numpy on object arrays): the combinatorial structure of one cell is concrete - an interior cell with 4 Voronoi vertices, boundary cells with 1, 2 and 3 Voronoi vertices whose site ends exactly two boundary edges, the site at different positions of the site list - every coordinate is a symbolic real (generic position: pairwise different abscissae) and the two geometric oracles are abstract (convex-hull routine: free area and convexity answers per POINT SET; angular sort: every permutation). Decided for all coordinates and oracle answers: interior cell = hull of its Voronoi vertices, non-convex interior cell refused; boundary cell = hull of {Voronoi vertices, midpoints of the two boundary edges at this site, the site} minus the hull of {midpoints, site} when not convex; the site sits between the midpoints in the polygon handed back; iteration s writes entry s only; inputs not written. Bounded in the number of vertices of ONE cell, unbounded in coordinates; cells with more vertices, coincident / vertically aligned points and qhull itself stay with the bounded family.",
    "C11": " Fifth session: native - time-dependent drives with a fixed step that is not a binary fraction: frames with the same step label carry the same time label and fields, bit for bit, for save intervals 1 / 7 / 20.",
    "C09": " Fifth session: the constructor carries the frame condition 'a solver is a function of its arguments: constructing one writes no module-level state' (candidate, lru_cache tables included; shared with the constructor units of C01, C06, C08, C10, C12, C19); the history harness also runs the 'output path used before' histories in the quick tier, one of them with exactly as many frames as the run under test.",
    "C16": " Fifth session: ARRAY arguments - CompositeParameter.__call__ executed on the instrumented source with array-valued operands (stored arrays, functions returning their input, cached time-dependent operands, complex values) evaluated three times at the same points: pointwise every time, argument arrays and arrays handed out by operand functions not written, operands still evaluate to their own function afterwards (frame condition decided on concrete arrays: whether a call writes to an array it did not create does not depend on the values).",
    "C17": " Fifth session: native - epsilon = 1 stated as a function made by a factory stays stationary after a sibling function of the same factory (a weak spot) served another run on the same device.",
    "C14": " Fifth session: what 'compares equal' means for the raw data of a step and the per-step records is under contract (array_safe_equals, dataclass_equals, TDGLData.__eq__, DynamicsData.__eq__): equal exactly when every field has the same shape and is close (numpy default tolerances or tighter), no field skipped, fields paired across the two objects, an object equals itself, different classes are unequal, nothing written.",
    "C18": " Fifth session: the class-level constructors Polygon.from_union / from_intersection / from_difference are under contract (left fold of the named operation over the items in order, requested name and mesh flag, items neither written nor shared) and in the native oracle (three-operand chains against point-wise membership).",
    "C19": " Fifth session: a rejection may only happen before the run starts - the per-step boundary update (update_mu_boundary, run after the output was created) answers for every current assignment and never raises a validation error; native: currents given as a function of time that are balanced at t = 0 and unbalanced later are refused before any file exists.",
}
EXTRA5["C20"] = (" Fifth session: the default-area branch of biot_savart_2d (areas=None: 'the positions are triangulated to calculate vertex areas') is under the call contract - the Delaunay "
                 "triangulation is of the given positions (in metres), the mesh is built from THESE positions and THAT triangulation, the kernel gets its cell areas as they are. On the pinned tree the "
                 "branch raised for every input (x and y columns handed over as two arguments): genuine defect, repaired by fix: commit 30f551c. Natives: areas=None against explicit cell areas; "
                 "2600 points at different heights in one call = in pieces = in reversed order (potential of the currents, field).")
EXTRA5["C20"] += (" The kernel of 1-D current elements (_biot_savart_1d_vector) and its wrapper biot_savart are under contract: the real kernel source runs with real numpy on object arrays of symbolic reals "
                  "for 2 evaluation points and 3 elements (plain double loop, every pair treated alike): B = mu0/4pi sum_k I_k dl_k x r / |r|^3 component by component for all values, inputs not written, wrapper hands "
                  "its arguments over unchanged and labels tesla; bounded in the two loop counts, unbounded in the values; native against a direct sum.")
EXTRA5["C18"] += " Native: small finely sampled shapes 1e3 .. 5e4 from the origin keep area and vertex count under translation / rotation."
EXTRA5["C07"] += " get_voronoi_polygon_indices is under contract (polygon of site i = stored adjacency values of row i minus one, entry by entry, one polygon per site in site order, adjacency of these elements; rows of symbolic length; with the adjacency contract: the triangles that contain site i); native brute force."
EXTRA5["C07"] += " The bounded family includes a device laid out 5e5 coherence lengths from the origin."
EXTRA5["C08"] += " Native history: one options object reused for a run in other units - what the first Solution reports (units, applied potential, currents in SI) does not change."
EXTRA5["C05"] = " Fifth session: numpy model has isclose over the reals (so a tolerance-based 'is the final frame a regular save' test fails the named obligations of the Solution.times unit); native: other time scales (1e-9, 2e3) and a final partial interval that is tiny against the elapsed time."
for _k, _v in EXTRA5.items():
    CLAIMS[_k]["text"] = CLAIMS[_k]["text"] + _v

checks = []
for p in props:
    pid = p["id"]
    if pid in CLAIMS:
        c = CLAIMS[pid]
        checks.append(dict(
            property_id=pid,
            quick_cmd=f"./check {pid} --tier quick",
            thorough_cmd=f"./check {pid} --tier thorough",
            evidence_file=f"evidence/{pid}.json",
            replay_cmd_template=f"./check {pid} --replay {{path}}",
            engine="pyvc",
            level_claimed=dict(category=c["category"], text=c["text"], design_ref=c["design_ref"]),
            level_note=c["note"],
            technique=c["technique"],
        ))
na = [dict(property_id=p["id"], reason=NA.get(p["id"], "not built yet (see DESIGN.md section 7 order of work)"))
      for p in props if p["id"] not in CLAIMS]
m = dict(
    version=1,
    setup_cmd="./setup.sh",
    hooks=dict(guard="PY_TDGL_VERIF",
               enable="no hooks needed: contracts are sidecar files under /verif/checks; the verifier re-reads /repo sources on every run",
               baseline_off_cmd="cd /repo && /venv/bin/python -m pytest -ra -q -p no:cacheprovider --timeout=900 --continue-on-collection-errors",
               source_commits=[], add_only=True),
    engines=[dict(name="pyvc", path="pyvc/", serves_properties=sorted(CLAIMS),
                  kind_free_text="VC generator: path-complete symbolic execution of the real Python source on z3-backed proxy values, "
                                 "loops cut at invariants, callees replaced by contracts; obligations discharged by z3 5.1 / cvc5 1.4")],
    checks=checks,
    notes="exit codes of ./check: 0 held, 1 violation (VIOLATION line), 2 undecided, 3 checker error. Known findings: known_findings.json.",
    not_applicable=na,
)
json.dump(m, open(os.path.join(V, "MANIFEST.json"), "w"), indent=1)
import jsonschema
jsonschema.validate(m, json.load(open("/root/.vp/MANIFEST.schema.json")))
print("MANIFEST ok:", len(checks), "checks,", len(na), "not applicable")
