"""regenerate /verif/MANIFEST.json from the table below (run: .venv/bin/python tools/mkmanifest.py)"""
import json
import os

V = os.path.dirname(os.path.dirname(os.path.abspath(__file__)))
props = [json.loads(l) for l in open(os.path.join(V, "properties.jsonl"))]

TRUST = ("Assumes A1 (floats as reals), A2, A3, A4 (numpy/scipy/h5py/pint models), A6 (numba), A8 (CPython), A9 (partial "
         "correctness), A10 (pyvc engine + z3/cvc5) of DESIGN.md section 3; per-check assumptions are listed in the evidence file.")

CLAIMS = {
    "C02": dict(
        category="proof",
        text="Contract on the real static method TDGLSolver.solve_for_psi_squared, discharged for every per-site input "
             "(all psi, mu, epsilon, gamma>=0, u>0, dt>0, arbitrary Laplacian action) by z3/nlsat over the reals: z,w equal the "
             "documented ones, psi'+z|psi'|^2=w, x=|psi'|^2>=0, documented branch, refusal iff some site has a negative "
             "discriminant, plus three solvability lemmas. Bit-level FP behaviour (traps, rounding) is not decided.",
        design_ref="DESIGN.md section 4 C02",
        technique="contract-based deductive verification: symbolic execution of the real source with opaque cuts, VCs to z3 (nlsat) / cvc5",
        note=TRUST + " FP traps (underflow refusals) invisible; thorough tier adds a bounded native cross-check (labelled bounded).",
    ),
}

NA = {}

checks = []
for p in props:
    pid = p["id"]
    if pid in CLAIMS:
        c = CLAIMS[pid]
        checks.append(dict(
            property_id=pid,
            quick_cmd=f"./check {pid} --tier quick",
            thorough_cmd=f"./check {pid} --tier thorough",
            evidence_file=f"evidence/{pid}.json",
            replay_cmd_template=f"./check {pid} --replay {{path}}",
            engine="pyvc",
            level_claimed=dict(category=c["category"], text=c["text"], design_ref=c["design_ref"]),
            level_note=c["note"],
            technique=c["technique"],
        ))
na = [dict(property_id=p["id"], reason=NA.get(p["id"], "not built yet (see DESIGN.md section 7 order of work)"))
      for p in props if p["id"] not in CLAIMS]
m = dict(
    version=1,
    setup_cmd="./setup.sh",
    hooks=dict(guard="PY_TDGL_VERIF",
               enable="no hooks needed: contracts are sidecar files under /verif/checks; the verifier re-reads /repo sources on every run",
               baseline_off_cmd="cd /repo && /venv/bin/python -m pytest -ra -q -p no:cacheprovider --timeout=900 --continue-on-collection-errors",
               source_commits=[], add_only=True),
    engines=[dict(name="pyvc", path="pyvc/", serves_properties=sorted(CLAIMS),
                  kind_free_text="VC generator: path-complete symbolic execution of the real Python source on z3-backed proxy values, "
                                 "loops cut at invariants, callees replaced by contracts; obligations discharged by z3 5.1 / cvc5 1.4")],
    checks=checks,
    notes="exit codes of ./check: 0 held, 1 violation (VIOLATION line), 2 undecided, 3 checker error. Known findings: known_findings.json.",
    not_applicable=na,
)
json.dump(m, open(os.path.join(V, "MANIFEST.json"), "w"), indent=1)
import jsonschema
jsonschema.validate(m, json.load(open("/root/.vp/MANIFEST.schema.json")))
print("MANIFEST ok:", len(checks), "checks,", len(na), "not applicable")
