#!/usr/bin/env python3
"""rewrite the coverage table of DESIGN.md section 8.2 from evidence/*.json"""
import glob
import json
import os

V = os.path.dirname(os.path.dirname(os.path.abspath(__file__)))
rows = ["| id | level | functions under contract (real code) | units | obligations discharged | bounded stand-ins (quick) | known findings hit | wall s |", "|---|---|---|---|---|---|---|---|"]
for f in sorted(glob.glob(os.path.join(V, "evidence", "C*.json"))):
    e = json.load(open(f))
    c = e["coverage"]
    funcs = sorted({(x or "").split(":")[-1].split(" ")[0] for x in c.get("functions_under_contract", []) if x and "real runs" not in x and "(real" not in x})
    b = c.get("bounded_stand_ins", {})
    rows.append(f"| {e['property_id']} | {e['level']} | {', '.join(funcs)[:230]} | {len(c.get('units', []))} | {c.get('discharged')}/{c.get('obligations')} | "
                f"{b.get('held', 0)}/{b.get('checks', 0)} | {c.get('obligations_failing_as_known_findings', 0)} | {e.get('wall_s')} |")
p = os.path.join(V, "DESIGN.md")
s = open(p).read()
a, b_ = "<!-- COVERAGE-BEGIN -->", "<!-- COVERAGE-END -->"
s = s[:s.index(a) + len(a)] + "\n" + "\n".join(rows) + "\n" + s[s.index(b_):]
open(p, "w").write(s)
print("coverage table:", len(rows) - 2, "rows")
