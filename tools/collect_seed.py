#!/usr/bin/env python3
"""copy a sub-agent's seed from its scratch worktree into /verif/seeded/<ID>/<k>/ and write the meta.json skeleton.
usage: tools/collect_seed.py <ID> <k> <worktree> "<origin text>" """
import json
import os
import re
import shutil
import subprocess
import sys

V = os.path.dirname(os.path.dirname(os.path.abspath(__file__)))
pid, k, wt, origin = sys.argv[1:5]
src = os.path.join(wt, "_seed", "1")
dst = os.path.join(V, "seeded", pid, k)
os.makedirs(dst, exist_ok=True)
# the patch is regenerated from the worktree (package sources only), so that it is exactly what the worktree holds
diff = subprocess.run(["git", "-C", wt, "diff", "--", "tdgl"], capture_output=True, text=True).stdout
open(os.path.join(dst, "patch.diff"), "w").write(diff)
for f in ("demo.py", "notes.md"):
    if os.path.exists(os.path.join(src, f)):
        shutil.copy(os.path.join(src, f), dst)
notes = open(os.path.join(dst, "notes.md")).read() if os.path.exists(os.path.join(dst, "notes.md")) else ""
m = re.search(r"(?ims)^##\s*What is needed.*?(?=^## |\Z)", notes)
meta = dict(property=pid, seed=f"{pid}/{k}", origin=origin,
            applies_to_repo_head=subprocess.run(["git", "-C", "/repo", "apply", "--check", os.path.join(dst, "patch.diff")], capture_output=True).returncode == 0,
            ported_by_hand=False, what_it_needs_to_manifest=(m.group(0) if m else notes[:900]).strip()[:1500],
            files_changed=sorted(set(re.findall(r"^\+\+\+ b/(\S+)", diff, re.M))),
            confirmed_by_me=dict(how="tools/confirm_seed.py: scratch worktree (never /repo): demo.py on the unchanged tree, git apply patch.diff, demo.py again, then the pinned test "
                                     "command (junit) compared id by id with the 705 baseline passes"),
            detected_by={}, note="")
json.dump(meta, open(os.path.join(dst, "meta.json"), "w"), indent=1)
print(pid, k, "files:", meta["files_changed"], "applies:", meta["applies_to_repo_head"], "diff lines:", diff.count("\n"))
