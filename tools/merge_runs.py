#!/usr/bin/env python3
"""merge confirm.json / detect.json written by background runs (vp run snapshots) into /verif/seeded and the meta.json files
usage: tools/merge_runs.py <snapshot verif dir> ..."""
import glob
import json
import os
import sys

V = os.path.dirname(os.path.dirname(os.path.abspath(__file__)))
for snap in sys.argv[1:]:
    for kind in ("confirm.json", "detect.json"):
        for f in glob.glob(os.path.join(snap, "seeded", "C*", "*", kind)):
            seed = "/".join(f.split("/")[-3:-1])
            dst = os.path.join(V, "seeded", seed, kind)
            new = json.load(open(f))
            if kind == "detect.json" and os.path.exists(dst):
                old = json.load(open(dst))
                for c, r in new.get("checks", {}).items():
                    old.setdefault("checks", {}).setdefault(c, r)      # results of the current machinery win
                new = old
            elif kind == "confirm.json" and os.path.exists(dst):
                continue
            json.dump(new, open(dst, "w"), indent=1, sort_keys=True)
            mp = os.path.join(V, "seeded", seed, "meta.json")
            if os.path.exists(mp):
                m = json.load(open(mp))
                if kind == "confirm.json":
                    cb = m.setdefault("confirmed_by_me", {})
                    cb.update(demo_exit_unchanged=new.get("demo_unchanged_rc"), demo_exit_with_change=new.get("demo_changed_rc"), tree=new.get("tree"))
                    if "suite_ok" in new:
                        cb.update(baseline_tests_still_passing=new["suite_ok"], tests_passed=new["suite_passed"])
                else:
                    m["detected_by"] = {c: r.get("verdict", r.get("error")) for c, r in sorted(new["checks"].items())}
                json.dump(m, open(mp, "w"), indent=1)
print("merged")
